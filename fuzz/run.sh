#!/bin/sh
# usage: run.sh <target> <total_runs> <seed>   -- fixed-work libFuzzer campaign with the oracle inside the target
# writes /verif/fuzz/last-<target>.json ; exit 0 always (crashes are reported through the JSON and re-checked by hcv)
t="$1"; runs="$2"; seed="$3"
[ "$seed" = "0" ] && seed=1
cd /verif/fuzz || exit 2
export CARGO_NET_OFFLINE=true
start=$(date +%s)
if ! cargo +nightly fuzz build --fuzz-dir /verif/fuzz -s none "$t" >/verif/fuzz/build-$t.log 2>&1; then
  echo "{\"target\":\"$t\",\"built\":false}" > /verif/fuzz/last-$t.json
  echo "fuzz build failed, see /verif/fuzz/build-$t.log" >&2
  exit 0
fi
bin=/verif/fuzz/target/x86_64-unknown-linux-gnu/release/$t
jobs=8
per=$((runs / jobs))
work=/verif/fuzz/work-$t-$$
rm -rf "$work"; mkdir -p "$work/corpus" /verif/fuzz/artifacts/$t
cp /verif/fuzz/seeds/$t/* "$work/corpus/" 2>/dev/null
before=$(ls /verif/fuzz/artifacts/$t | wc -l)
( cd "$work" && "$bin" corpus -runs=$per -seed=$seed -len_control=0 -max_len=1024 -timeout=120 -rss_limit_mb=6000 \
    -jobs=$jobs -workers=$jobs -artifact_prefix=/verif/fuzz/artifacts/$t/ >"$work/driver.log" 2>&1 )
execs=$(cat "$work"/fuzz-*.log 2>/dev/null | grep -o "Done [0-9]* runs" | awk '{s+=$2} END {print s+0}')
cov=$(cat "$work"/fuzz-*.log 2>/dev/null | grep -o "cov: [0-9]*" | awk '{if ($2>m) m=$2} END {print m+0}')
corpus=$(ls "$work/corpus" | wc -l)
arts=$(ls -t /verif/fuzz/artifacts/$t | head -n $(( $(ls /verif/fuzz/artifacts/$t | wc -l) - before )) | sed "s#^#\"/verif/fuzz/artifacts/$t/#; s#\$#\"#" | paste -sd, -)
end=$(date +%s)
echo "{\"target\":\"$t\",\"built\":true,\"runs_requested\":$runs,\"execs_done\":$execs,\"jobs\":$jobs,\"seed\":$seed,\"coverage_edges\":$cov,\"corpus_files\":$corpus,\"new_artifacts\":[$arts],\"secs\":$((end-start))}" > /verif/fuzz/last-$t.json
rm -rf "$work"
cat /verif/fuzz/last-$t.json
exit 0
