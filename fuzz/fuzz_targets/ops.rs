#![no_main]
use libfuzzer_sys::fuzz_target;

fuzz_target!(|data: &[u8]| {
    hcverif::fuzz::fuzz_one(hcverif::fuzz::Target::Ops, data);
});
