#!/usr/bin/env python3
"""keep_mutant.py <prop> <k> <slug> <caught_by csv> <missed_by csv> -- copy a confirmed seeded change into /verif/seeded/<prop>-<slug>/"""
import sys, os, shutil, json, re
prop, k, slug, caught, missed = sys.argv[1:6]
src = os.environ.get("MUT_SRC", f"/tmp/mut-{prop}")
rnd = os.environ.get("MUT_ROUND", "")
dst = f"/verif/seeded/{prop}-{rnd}m{k}-{slug}"
os.makedirs(dst, exist_ok=True)
shutil.copy(f"{src}/mutant{k}.diff", f"{dst}/patch.diff")
shutil.copy(f"{src}/demo{k}.rs", f"{dst}/demo.rs")
md = open(f"{src}/mutant{k}.md").read()
open(f"{dst}/notes.md", "w").write(md)
log = open(f"{src}/verify{k}.log").read() if os.path.exists(f"{src}/verify{k}.log") else ""
meta = {
  "property": prop,
  "origin": "independent sub-agent given only the property text and a scratch worktree",
  "needs_to_manifest": md.strip().split("\n")[0][:300],
  "confirmed_by_me": {
     "how": "tools/verify_mutant.sh in a scratch worktree: existing suite with the change, demo with the change (fails), demo without (passes)",
     "log": log,
  },
  "checks_run": "tools/run_mutant.sh patch.diff <checks> (applies to /repo, runs ./check <Cxx> quick with VERIF_SEED=1, undoes it)",
  "caught_by_quick": [c for c in caught.split(",") if c],
  "not_caught_by_quick": [c for c in missed.split(",") if c],
}
json.dump(meta, open(f"{dst}/meta.json", "w"), indent=1)
print("kept", dst)
