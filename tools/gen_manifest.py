#!/usr/bin/env python3
"""Regenerates /verif/MANIFEST.json. Properties listed in CLAIMED are registered as checks;
all others go to not_applicable with the reason given in PENDING (must be empty at the end)."""
import json

CLAIMED = {
 "C01": ("exploration",
   "model-based stateful PBT against an append-only list model: bounded-exhaustive histories over an 8-symbol alphabet + seeded-random histories (proptest, shrinking) + page-crossing histories (cores of 2-4 bitfield pages, clears placed relative to page edges) + histories with one batch of 9-25 MiB; reopen differential",
   "Every history up to the stated length over the 8-symbol alphabet, plus seeded-random histories (incl. cores > 65536 blocks), is executed through the public API on harness-owned storage and compared after every step with a list model; observations before/after every reopen are compared as a pure differential. Exploration is the honest level: nothing is claimed beyond the enumerated bound and the sampled histories.",
   "trusts the instrumented in-memory backend (cross-validated against the stock memory/disk backends by C14) and the list model (harness/src/model.rs)"),
 "C02": ("fault_enumeration",
   "crash-point enumeration: every prefix of the journal of mutating storage operations x generated histories (bounded-exhaustive + proptest), reopened with open mode or by building with the key pair, before-or-after oracle + usability suffix variants + one level of nested crashes + random crash chains",
   "For each generated history all crash points (journal prefixes) are enumerated (only inside calls that issue more than 96 storage operations - flushes of batches of hundreds of blocks - interior points are sampled every 16th, counted in the evidence); the recovered core must equal the model before or after the call in progress and stay usable. Histories are bounded-exhaustive for short lengths and seeded-random beyond; writer and replica (proof application) histories; plus crash chains (many crashes along one history).",
   "assumes each storage operation is atomic and durable in issue order (given by the statement); crashes before the first build() returned are out of scope"),
 "C03": ("exploration",
   "writer/replica session PBT: exhaustive single-request family for all growth pairs n1<=n2<=N, all fetch orders for n<=5, seeded-random sessions (proptest) incl. multi-page writers with page-edge clears and seeks over the writer's whole byte length whenever the request upgrades, replica model from the writer's blocks, convergence loop",
   "Honest requests of every shape are generated from the replica's own state; every created proof must be accepted and the replica must equal the model derived from the writer's data, across replica reopen, ending with the standard fetch-everything loop.",
   "writer-side Err is treated as 'no proof' (documented refusals), counted per request shape in the evidence"),
 "C04": ("exploration",
   "complete single-field proof alteration set + random 2-4 combinations + systematic forgeries (second writer/other key, substituted block with recomputed parents, exchanged signatures incl. the signature the replica itself holds replayed on a forged upgrade, replays, section grafts, hash bytes moved between sibling nodes) against replica snapshots; refused=>unchanged, accepted=>only signed data + second-step forgeries still refused + convergence oracle; libFuzzer target in thorough",
   "For honest proofs of every request shape (exhaustive single-request family for small logs, seeded-random sessions beyond) every single-field alteration is generated and applied to a byte copy of the replica; a refused proof must leave observation and stored state unchanged, an accepted one must leave only writer-signed data and honest replication must still converge.",
   "size fields of the bottom node of hash-only and seek sections are excluded by construction (counted in the evidence), as in the statement; Ed25519/BLAKE2b are trusted"),
 "C07": ("fault_enumeration",
   "crash-point enumeration with a torn last write: all proper byte prefixes for writes <= 64 bytes, framing boundaries + 512-byte multiples + seeded cuts beyond; before-or-after oracle + usability suffix",
   "Same histories, journal and oracle as C02; every crash point whose next operation is a write is additionally explored with only a byte prefix of that write applied.",
   "assumes a torn write leaves exactly a byte prefix of the data in the store and everything before it is durable"),
 "C09": ("exploration",
   "boundary cross-product of request tuples over 75 generated cores + seeded-random stateful peer calls (boundary-relative requests, structurally arbitrary proofs, altered honest proofs) under catch_unwind and a hang watchdog, with a usability check after calls",
   "create_proof and verify_and_apply_proof are called with peer-controlled values from the boundary sets of the statement (complete product in thorough) and with generated arbitrary/altered proofs; any panic, abort or confirmed hang is a violation; afterwards the core must still answer.",
   "numeric fields below 2^40 and 32-byte node hashes (what the wire decoder yields); a hang is reported as violation only after confirmation in an isolated subprocess"),
 "C10": ("fault_enumeration",
   "single-fault injection at every storage operation index (reads and length queries included) x generated writer and replica histories, also starting from crashed (incl. torn) storage, for re-creation with overwrite, for the creating build itself (operations failing without effect or after a byte prefix of a write) and around batches that take the oplog over its 64 KiB budget; error-surfacing + reopen before-or-after + usability oracle",
   "For each generated history a dry run counts the storage operations; the history is re-run once per operation index with that operation failing. All indices are enumerated, histories are bounded-exhaustive for short lengths and seeded-random beyond.",
   "the failing operation has no effect on the store; one fault per run"),
 "C05": ("exploration",
   "differential against an independent re-implementation of the Hypercore v10 Merkle/signature scheme over generated block sequences: all lengths 0..70 x size patterns x build modes + seeded-random sequences + replicas + every crash state + reference-signed virtual logs (sizes beyond 2^32) served to the crate + logs of 131071..262143 blocks (17-18 roots); persisted nodes, header/entry signatures and proof nodes compared",
   "Every full tree node persisted by the crate (tree file overlaid with unflushed oplog entry nodes), the stored root hash and every stored or served signature is compared with / verified against a reference computed by independent code at every operation boundary.",
   "shares only the BLAKE2b, Ed25519 (verify_strict) and CRC32 primitives with the crate; flat-tree arithmetic, hashing layout, signable and file parsing are independent"),
 "C06": ("exploration",
   "differential in both directions against an independent reader/writer of the JavaScript on-disk layout (generated histories dumped at every operation boundary; generated JS-valid storages opened by the crate, then used, with every crash point of the first operation after opening) + the golden five-step interop scenario with certified SHA-256 hashes",
   "Direction 1: an independent layout reader reconstructs the state from the raw files after every generated operation and must agree with the API. Golden: the crate alone must reproduce the file hashes certified against JavaScript. Direction 2: an independent writer synthesises JS-valid storage (slot rotations, complete batches of partial-flagged entries, fork counters above 0, partial/stale/torn tails) that the crate must open to the reference state.",
   "the JavaScript implementation is not available offline; the layout rules of the property text and the certified hashes of tests/js_interop.rs are the reference; header shape limited to version 1 with manifest and key pair sections"),
 "C08": ("exploration",
   "model-based PBT at page-crossing scale: writer histories with 8191..65537-block batches, page-straddling clears, reopen and generated crash-recovery steps; replicas fetching blocks pages apart with replica-side clears (incl. ranges from inside an untouched page into a held one); has() swept over all indices + boundary probes, contiguous_length against the model",
   "After every step of scaled histories has(i) is compared with the model for all i < length and probed beyond it, and contiguous_length with the first missing index, on writers (incl. crash recovery from generated journal prefixes) and replicas.",
   "replica-side clears only where the neighbours are held or log ends (otherwise the replica may legitimately lack the tree nodes it needs)"),
 "C11": ("exploration",
   "round-trip + differential against an independent compact-encoding encoder + every strict prefix must fail to decode; boundary cross-product enumerated (integers, byte-string lengths up to 65537, lists up to 300 nodes), seeded-random composite values (proptest); values with a node hash that is not 32 bytes must be refused or keep every promise",
   "For generated values of all eight message types the announced size, the bytes written, an independent encoding of the fields and the decoded value must agree, and every strict prefix must decode to an error without panicking.",
   "valid encodings and their prefixes only (arbitrary bytes may legitimately make the dependency allocate)"),
 "C12": ("exploration",
   "model-based PBT + raw-byte scan of all four files for the secret key + byte-for-byte file comparison around refused calls + crash-point enumeration inside make_read_only + rebuilds on existing storage with the full / public-only key pair",
   "Histories with make_read_only at generated positions (bounded-exhaustive over 9 symbols, then random) on writers and replicas; every append call on a core without secret key, the empty batch included, must return the not-writable error and change nothing; files are scanned for the key after the call and after every later operation; every crash point of histories containing the call is enumerated.",
   "fixed test key pair; the scan looks for the 32-byte secret and both of its 16-byte halves"),
 "C13": ("exploration",
   "event-trace oracle over generated writer and replica histories (incl. altered, wrong-fork and replayed proofs, injected storage faults) with 0..4 subscribers drained after every call plus one lazy subscriber read only at the end (must hold the same events in operation order; suffix after a channel overflow); long writer histories with batches of 300-1900 blocks",
   "For every call of generated histories the exact list of events every subscriber must have seen is computed from the model and compared, including refused/altered proofs and failing calls.",
   "calls the statement does not mention (missing_nodes, clear) are only required not to announce availability"),
 "C14": ("exploration",
   "differential across storage backends (instrumented memory, journaled, stock random-access-memory with several page sizes, stock disk in a scratch directory, with and without the sparse feature) x node cache configurations (off, default, 3 nodes, and per history one of capacity 0 / one node / time-to-live only / time-to-idle only) over generated histories with honest and arbitrary peer requests, altered proofs and re-creation with overwrite (reference: brand-new storage) + enumerated refused-request-then-growth scenarios: all step results, complete proofs and file bytes compared",
   "The same generated history (writer ops and replication steps, one key pair) runs on every configuration; any difference in a result or in a file byte is a violation.",
   "physical allocation is not compared (punched holes read back as zeros); thorough additionally runs a build without the sparse feature; a watchdog-confirmed hang counts as violation only if a second subprocess shows the reference configuration completing the same history"),
 "C15": ("exploration",
   "deterministic single-threaded scheduler over a yielding backend: ALL schedules (stateless DFS) for 2 tasks x <=2 calls, seeded-random programs/schedules beyond, plus a stage that forces the mutex into FIFO hand-over so every lock acquisition is preemptible; call alphabet incl. refused proofs and clears; deadlock detection (no ready task while tasks are unfinished); tagged-journal atomicity + sequential-replay linearizability oracle with search over real-time-consistent orders",
   "SharedCore is driven by a scheduler that owns every preemption point (each storage operation and each call boundary); every execution must be equal to some sequential order of its calls and no call's storage operations may interleave with another's.",
   "task interleavings only (no OS-thread races); async_lock's wall-clock fairness can change the winner of the lock, not the oracle's verdict"),
}

PENDING_REASON = "check under construction in this round (designed in DESIGN.md §3, not yet registered)"

props = [json.loads(l) for l in open('/verif/properties.jsonl')]
m = {
 "version": 1,
 "setup_cmd": "cd /verif/harness && CARGO_NET_OFFLINE=true cargo build --release --offline",
 "hooks": {"guard": "none-needed",
           "enable": "no hooks: all checks drive the public API of /repo through harness-owned RandomAccess backends; /repo is a path dependency of /verif/harness and is rebuilt by every ./check",
           "baseline_off_cmd": "cd /repo && cargo test --workspace --no-fail-fast --offline",
           "source_commits": [], "add_only": True},
 "engines": [{"name": "hcv", "path": "/verif/harness", "serves_properties": sorted(CLAIMED),
              "kind_free_text": "Rust harness: proptest runner + bounded-exhaustive enumerators + instrumented storage backends (journal, fault injection, yielding) + independent reference models"}],
 "checks": [], "not_applicable": [],
 "notes": "Entry point ./check <Cxx> quick|thorough|--replay <file>. Exit 0 held (KNOWN-FINDING lines possible), 1 violation, 2 inconclusive (build failure, watchdog, abnormal termination). VERIF_SEED selects the PRNG seed (default 1).",
}
for p in props:
    i = p['id']
    if i in CLAIMED:
        lvl, tech, text, note = CLAIMED[i]
        m["checks"].append({"property_id": i, "quick_cmd": f"./check {i} quick", "thorough_cmd": f"./check {i} thorough",
            "evidence_file": f"/verif/evidence/{i}.json", "replay_cmd_template": f"./check {i} --replay {{path}}",
            "engine": "hcv", "level_claimed": {"category": lvl, "text": text, "design_ref": f"DESIGN.md §3 {i}"},
            "level_note": note, "technique": tech})
    else:
        m["not_applicable"].append({"property_id": i, "reason": PENDING_REASON})
json.dump(m, open('/verif/MANIFEST.json', 'w'), indent=1)
print("claimed:", sorted(CLAIMED), "pending:", [x["property_id"] for x in m["not_applicable"]])
