#!/bin/sh
# usage: mutant_matrix.sh <out.tsv> [seeded-dir ...]
# Runs every seeded change against all quick checks in an ISOLATED scratch copy of /repo and the harness
# (nothing in /repo or /verif/evidence is touched). One line per (mutant, check): mutant check exit wall kind
out="$1"; shift
W=${HCV_MATRIX_WORK:-/tmp/hcv-matrix-$$}
rm -rf "$W"; mkdir -p "$W/verif"
cp -r /repo "$W/repo"; rm -rf "$W/repo/target"
git -C "$W/repo" checkout -q -- . 2>/dev/null
cp -r /verif/harness "$W/verif/harness"; rm -rf "$W/verif/harness/target"
cp -r /verif/regress /verif/known_findings.json "$W/verif/"
sed -i "s#path = \"/repo\"#path = \"$W/repo\"#" "$W/verif/harness/Cargo.toml"
export HCV_VERIF_DIR="$W/verif" CARGO_NET_OFFLINE=true VERIF_SEED=${VERIF_SEED:-1}
: > "$out"
[ $# -eq 0 ] && set -- /verif/seeded/*/
for d in "$@"; do
  m=$(basename "$d")
  ( cd "$W/repo" && git checkout -q -- . && git apply "$d/patch.diff" ) || { echo "$m APPLY-FAILED" >> "$out"; continue; }
  ( cd "$W/verif/harness" && cargo build --release --offline >/dev/null 2>&1 ) || { echo "$m BUILD-FAILED" >> "$out"; continue; }
  checks="${HCV_MATRIX_CHECKS:-C01 C02 C03 C04 C05 C06 C07 C08 C09 C10 C11 C12 C13 C14 C15}"
  # optional plan file: lines "<seeded dir name> <check> <check> ..." restrict the checks per change
  if [ -n "$HCV_MATRIX_PLAN" ] && grep -q "^$m " "$HCV_MATRIX_PLAN"; then checks=$(grep "^$m " "$HCV_MATRIX_PLAN" | head -1 | cut -d' ' -f2-); fi
  for p in $checks; do
    o=$(cd "$W/verif/harness" && VERIF_HANG_SECS=60 timeout 900 ./target/release/hcv $p quick 2>&1); code=$?
    kind=$(echo "$o" | grep -o "^--- failure \[[^]]*\]" | head -1 | sed 's/^--- failure //')
    t=$(echo "$o" | grep -o "wall=[0-9.]*s" | tail -1)
    printf "%s\t%s\t%s\t%s\t%s\n" "$m" "$p" "$code" "$t" "$kind" >> "$out"
  done
done
( cd "$W/repo" && git checkout -q -- . )
rm -rf "$W"
echo "matrix written to $out"
