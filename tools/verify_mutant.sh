#!/bin/sh
# usage: verify_mutant.sh <worktree> <k>  -- confirm a seeded change: suite passes with it, demo fails with it, demo passes without it
wt="$1"; k="$2"
cd "$wt" || exit 2
export CARGO_NET_OFFLINE=true
git checkout -q -- . ; rm -f tests/zz_demo.rs
out="$wt/verify$k.log"; : > "$out"
feat=""
grep -qi "features" "mutant$k.md" 2>/dev/null && grep -o -- "--features [a-z_,-]*" "mutant$k.md" | head -1 > /tmp/feat.$$ && feat="$(cat /tmp/feat.$$)"; rm -f /tmp/feat.$$
git apply "mutant$k.diff" || { echo "APPLY-FAILED" >> "$out"; exit 1; }
echo "== suite with mutant" >> "$out"
cargo test --workspace --no-fail-fast --offline 2>&1 | grep -E "^test result|FAILED|failed|error" >> "$out"
cp "demo$k.rs" tests/zz_demo.rs
echo "== demo with mutant (expect failure) features=[$feat]" >> "$out"
cargo test --offline $feat --test zz_demo 2>&1 | grep -E "^test result|FAILED|panicked|error(\[|:)" | head -12 >> "$out"
git checkout -q -- .
echo "== demo without mutant (expect pass)" >> "$out"
cargo test --offline $feat --test zz_demo 2>&1 | grep -E "^test result|FAILED|panicked|error(\[|:)" | head -12 >> "$out"
rm -f tests/zz_demo.rs
git status --short | grep -v "^??" >> "$out"
echo "== done" >> "$out"
