#!/bin/sh
# usage: run_mutant.sh <patch.diff> <Cxx> [<Cxx> ...]  -- apply a seeded change to /repo, run the quick checks, undo it
patch="$1"; shift
cd /repo || exit 2
if [ -n "$(git status --porcelain --untracked-files=no)" ]; then echo "/repo not clean"; exit 2; fi
git apply "$patch" || { echo "APPLY-FAILED"; exit 2; }
res=""
for p in "$@"; do
  out=$(cd /verif && VERIF_SEED=${VERIF_SEED:-1} ./check $p quick 2>&1)
  code=$?
  kind=$(echo "$out" | grep -o "^--- failure \[[^]]*\]" | head -1)
  t=$(echo "$out" | grep -o "wall=[0-9.]*s" | tail -1)
  echo "$p exit=$code $t $kind"
done
git -C /repo checkout -- .
