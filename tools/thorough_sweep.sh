#!/bin/sh
# usage (from a snapshot of /verif, e.g. under `vp run`): tools/thorough_sweep.sh <seed> [Cxx ...]
# Builds the harness inside the snapshot and runs the thorough tier of the given checks (all by default)
# with evidence/replays redirected into the snapshot (HCV_VERIF_DIR); the libFuzzer stages are not part of it.
seed="${1:-1}"; shift
root="$(cd "$(dirname "$0")/.." && pwd)"
cd "$root/harness" || exit 2
export CARGO_NET_OFFLINE=true HCV_VERIF_DIR="$root" VERIF_SEED="$seed"
cargo build --release --offline 2>&1 | tail -2
[ $# -eq 0 ] && set -- C01 C02 C03 C04 C05 C06 C07 C08 C09 C10 C11 C12 C13 C14 C15
for p in "$@"; do
  s=$(date +%s)
  ./target/release/hcv $p ${HCV_TIER:-thorough} > "$root/sweep-$p-$seed.log" 2>&1; c=$?
  e=$(date +%s)
  echo "$p seed=$seed exit=$c $((e-s))s $(grep -E '^(VIOLATION|KNOWN-FINDING|INCONCLUSIVE)' "$root/sweep-$p-$seed.log" | head -3)"
  [ $c -ne 0 ] && grep -E "^--- failure" -A6 "$root/sweep-$p-$seed.log" | head -40
done
