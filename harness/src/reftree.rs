//! Independent reference implementation of the Hypercore v10 Merkle scheme
//! (flat in-order tree, BLAKE2b-256 hashes, Ed25519 signatures over the signable).
//! Nothing here calls into /repo. Trusted base: `blake2`, `ed25519-dalek`.

use blake2::digest::consts::U32;
use blake2::{Blake2b, Digest};
use ed25519_dalek::{Signature, VerifyingKey};

type B2 = Blake2b<U32>;

// ------------------------------------------------------------ flat tree arithmetic

pub fn depth(i: u64) -> u32 {
    (!i).trailing_zeros()
}
pub fn offset(i: u64) -> u64 {
    let d = depth(i);
    if d == 0 {
        i / 2
    } else {
        i >> (d + 1)
    }
}
pub fn index(depth: u32, offset: u64) -> u64 {
    ((2 * offset + 1) << depth) - 1
}
pub fn parent(i: u64) -> u64 {
    let d = depth(i);
    index(d + 1, offset(i) >> 1)
}
pub fn sibling(i: u64) -> u64 {
    index(depth(i), offset(i) ^ 1)
}
pub fn left_child(i: u64) -> Option<u64> {
    let d = depth(i);
    if d == 0 {
        None
    } else {
        Some(index(d - 1, offset(i) * 2))
    }
}
pub fn right_child(i: u64) -> Option<u64> {
    let d = depth(i);
    if d == 0 {
        None
    } else {
        Some(index(d - 1, offset(i) * 2 + 1))
    }
}
pub fn left_span(i: u64) -> u64 {
    i + 1 - (1u64 << depth(i))
}
pub fn right_span(i: u64) -> u64 {
    i + (1u64 << depth(i)) - 1
}
/// Number of leaves under i.
pub fn leaf_count(i: u64) -> u64 {
    1u64 << depth(i)
}
/// Root indices of a log with `len` blocks, left to right.
pub fn full_roots(len: u64) -> Vec<u64> {
    let mut roots = vec![];
    let mut start = 0u64; // first leaf (block index) of the next tree
    let mut remaining = len;
    while remaining > 0 {
        let p = 63 - remaining.leading_zeros(); // largest power of two <= remaining
        let size = 1u64 << p;
        // root of a perfect tree of `size` leaves starting at leaf `start`
        roots.push(2 * start + size - 1);
        start += size;
        remaining -= size;
    }
    roots
}

// ------------------------------------------------------------ hashing

pub fn leaf_hash(data: &[u8]) -> [u8; 32] {
    let mut h = B2::new();
    h.update([0u8]);
    h.update((data.len() as u64).to_le_bytes());
    h.update(data);
    h.finalize().into()
}

pub fn parent_hash(left: &RNode, right: &RNode) -> [u8; 32] {
    let mut h = B2::new();
    h.update([1u8]);
    h.update((left.size + right.size).to_le_bytes());
    h.update(left.hash);
    h.update(right.hash);
    h.finalize().into()
}

pub fn tree_hash(roots: &[RNode]) -> [u8; 32] {
    let mut h = B2::new();
    h.update([2u8]);
    for r in roots {
        h.update(r.hash);
        h.update(r.index.to_le_bytes());
        h.update(r.size.to_le_bytes());
    }
    h.finalize().into()
}

/// `TREE` namespace = BLAKE2b-256( BLAKE2b-256("hypercore") ‖ 0x00 ), derived, not copied.
pub fn tree_namespace() -> [u8; 32] {
    let ns: [u8; 32] = {
        let mut h = B2::new();
        h.update(b"hypercore");
        h.finalize().into()
    };
    let mut h = B2::new();
    h.update(ns);
    h.update([0u8]);
    h.finalize().into()
}

pub fn signable(tree_hash: &[u8; 32], length: u64, fork: u64) -> Vec<u8> {
    let mut v = Vec::with_capacity(80);
    v.extend_from_slice(&tree_namespace());
    v.extend_from_slice(tree_hash);
    v.extend_from_slice(&length.to_le_bytes());
    v.extend_from_slice(&fork.to_le_bytes());
    v
}

#[derive(Clone, Copy, Debug, PartialEq, Eq)]
pub struct RNode {
    pub index: u64,
    pub size: u64,
    pub hash: [u8; 32],
}

/// The complete reference tree over a list of blocks (all full nodes).
#[derive(Clone, Debug, Default)]
pub struct RefTree {
    /// leaf sizes/hashes by block index
    pub nodes: std::collections::HashMap<u64, RNode>,
    pub len: u64,
}

impl RefTree {
    pub fn new() -> Self {
        Self::default()
    }

    pub fn from_blocks(blocks: &[Vec<u8>]) -> Self {
        let mut t = Self::new();
        for b in blocks {
            t.append(b);
        }
        t
    }

    pub fn append(&mut self, data: &[u8]) {
        let i = 2 * self.len;
        let mut cur = RNode { index: i, size: data.len() as u64, hash: leaf_hash(data) };
        self.nodes.insert(i, cur);
        self.len += 1;
        // complete parents whose right child was just completed
        loop {
            let idx = cur.index;
            // is cur a right child whose sibling exists?
            if offset(idx) & 1 == 1 {
                let sib = sibling(idx);
                if let Some(l) = self.nodes.get(&sib).copied() {
                    let p = parent(idx);
                    let node = RNode { index: p, size: l.size + cur.size, hash: parent_hash(&l, &cur) };
                    self.nodes.insert(p, node);
                    cur = node;
                    continue;
                }
            }
            break;
        }
    }

    /// Append a leaf given only its size and hash (a "virtual" block: lets the reference build and
    /// sign trees whose sizes no real data could reach, e.g. beyond 2^32 bytes).
    pub fn append_leaf(&mut self, size: u64, hash: [u8; 32]) {
        let i = 2 * self.len;
        let mut cur = RNode { index: i, size, hash };
        self.nodes.insert(i, cur);
        self.len += 1;
        loop {
            let idx = cur.index;
            if offset(idx) & 1 == 1 {
                let sib = sibling(idx);
                if let Some(l) = self.nodes.get(&sib).copied() {
                    let p = parent(idx);
                    let node = RNode { index: p, size: l.size + cur.size, hash: parent_hash(&l, &cur) };
                    self.nodes.insert(p, node);
                    cur = node;
                    continue;
                }
            }
            break;
        }
    }

    pub fn get(&self, i: u64) -> Option<&RNode> {
        self.nodes.get(&i)
    }

    pub fn roots_at(&self, len: u64) -> Vec<RNode> {
        full_roots(len).into_iter().map(|i| self.nodes[&i]).collect()
    }

    pub fn byte_length_at(&self, len: u64) -> u64 {
        self.roots_at(len).iter().map(|r| r.size).sum()
    }

    pub fn tree_hash_at(&self, len: u64) -> [u8; 32] {
        tree_hash(&self.roots_at(len))
    }

    pub fn signable_at(&self, len: u64, fork: u64) -> Vec<u8> {
        signable(&self.tree_hash_at(len), len, fork)
    }

    /// Strict Ed25519 verification of `sig` over the signable at `len`.
    pub fn verify_sig(&self, len: u64, fork: u64, sig: &[u8], key: &VerifyingKey) -> Result<(), String> {
        let sig = Signature::from_slice(sig).map_err(|e| format!("signature does not parse: {e}"))?;
        key.verify_strict(&self.signable_at(len, fork), &sig).map_err(|e| format!("signature invalid: {e}"))
    }

    /// All full node indices of a log with `len` blocks.
    pub fn full_indices(len: u64) -> Vec<u64> {
        let mut out = vec![];
        for r in full_roots(len) {
            for i in left_span(r)..=right_span(r) {
                out.push(i);
            }
        }
        out
    }
}

#[cfg(test)]
mod tests {
    use super::*;
    #[test]
    fn flat_tree_basics() {
        assert_eq!(depth(0), 0);
        assert_eq!(depth(1), 1);
        assert_eq!(depth(3), 2);
        assert_eq!(depth(7), 3);
        assert_eq!(parent(0), 1);
        assert_eq!(parent(2), 1);
        assert_eq!(parent(1), 3);
        assert_eq!(parent(5), 3);
        assert_eq!(sibling(0), 2);
        assert_eq!(sibling(1), 5);
        assert_eq!(left_span(3), 0);
        assert_eq!(right_span(3), 6);
        assert_eq!(full_roots(0), Vec::<u64>::new());
        assert_eq!(full_roots(1), vec![0]);
        assert_eq!(full_roots(2), vec![1]);
        assert_eq!(full_roots(3), vec![1, 4]);
        assert_eq!(full_roots(10), vec![7, 17]);
        assert_eq!(full_roots(7), vec![3, 9, 12]);
        assert_eq!(left_child(3), Some(1));
        assert_eq!(right_child(3), Some(5));
    }
    #[test]
    fn namespace_matches_published_constant() {
        // published in hypercore's caps.js / crypto/hash.rs
        let ns = tree_namespace();
        assert_eq!(ns[0], 0x9f);
        assert_eq!(ns[1], 0xac);
        assert_eq!(ns[31], 0x9c);
    }
}
