//! Plain-data proofs and the alteration set used by C04 / C09.

use hypercore::{DataBlock, DataHash, DataSeek, DataUpgrade, Node, Proof};
use merkle_tree_stream::Node as NodeTrait;
use serde::{Deserialize, Serialize};

#[derive(Clone, Debug, PartialEq, Eq, Hash, Serialize, Deserialize)]
pub struct PNode {
    pub index: u64,
    pub size: u64,
    pub hash: Vec<u8>,
}

#[derive(Clone, Debug, PartialEq, Eq, Hash, Serialize, Deserialize)]
pub struct PBlock {
    pub index: u64,
    pub value: Vec<u8>,
    pub nodes: Vec<PNode>,
}
#[derive(Clone, Debug, PartialEq, Eq, Hash, Serialize, Deserialize)]
pub struct PHash {
    pub index: u64,
    pub nodes: Vec<PNode>,
}
#[derive(Clone, Debug, PartialEq, Eq, Hash, Serialize, Deserialize)]
pub struct PSeek {
    pub bytes: u64,
    pub nodes: Vec<PNode>,
}
#[derive(Clone, Debug, PartialEq, Eq, Hash, Serialize, Deserialize)]
pub struct PUpgrade {
    pub start: u64,
    pub length: u64,
    pub nodes: Vec<PNode>,
    pub additional_nodes: Vec<PNode>,
    pub signature: Vec<u8>,
}
#[derive(Clone, Debug, PartialEq, Eq, Hash, Serialize, Deserialize)]
pub struct PProof {
    pub fork: u64,
    pub block: Option<PBlock>,
    pub hash: Option<PHash>,
    pub seek: Option<PSeek>,
    pub upgrade: Option<PUpgrade>,
}

fn pn(n: &Node) -> PNode {
    PNode { index: NodeTrait::index(n), size: NodeTrait::len(n), hash: NodeTrait::hash(n).to_vec() }
}
fn np(n: &PNode) -> Node {
    Node::new(n.index, n.hash.clone(), n.size)
}

impl PProof {
    pub fn from_proof(p: &Proof) -> Self {
        PProof {
            fork: p.fork,
            block: p.block.as_ref().map(|b| PBlock { index: b.index, value: b.value.clone(), nodes: b.nodes.iter().map(pn).collect() }),
            hash: p.hash.as_ref().map(|h| PHash { index: h.index, nodes: h.nodes.iter().map(pn).collect() }),
            seek: p.seek.as_ref().map(|s| PSeek { bytes: s.bytes, nodes: s.nodes.iter().map(pn).collect() }),
            upgrade: p.upgrade.as_ref().map(|u| PUpgrade {
                start: u.start,
                length: u.length,
                nodes: u.nodes.iter().map(pn).collect(),
                additional_nodes: u.additional_nodes.iter().map(pn).collect(),
                signature: u.signature.clone(),
            }),
        }
    }
    pub fn to_proof(&self) -> Proof {
        Proof {
            fork: self.fork,
            block: self.block.as_ref().map(|b| DataBlock { index: b.index, value: b.value.clone(), nodes: b.nodes.iter().map(np).collect() }),
            hash: self.hash.as_ref().map(|h| DataHash { index: h.index, nodes: h.nodes.iter().map(np).collect() }),
            seek: self.seek.as_ref().map(|s| DataSeek { bytes: s.bytes, nodes: s.nodes.iter().map(np).collect() }),
            upgrade: self.upgrade.as_ref().map(|u| DataUpgrade {
                start: u.start,
                length: u.length,
                nodes: u.nodes.iter().map(np).collect(),
                additional_nodes: u.additional_nodes.iter().map(np).collect(),
                signature: u.signature.clone(),
            }),
        }
    }
    pub fn list(&self, l: L) -> Option<&Vec<PNode>> {
        match l {
            L::Block => self.block.as_ref().map(|b| &b.nodes),
            L::Hash => self.hash.as_ref().map(|b| &b.nodes),
            L::Seek => self.seek.as_ref().map(|b| &b.nodes),
            L::Up => self.upgrade.as_ref().map(|b| &b.nodes),
            L::Add => self.upgrade.as_ref().map(|b| &b.additional_nodes),
        }
    }
    pub fn list_mut(&mut self, l: L) -> Option<&mut Vec<PNode>> {
        match l {
            L::Block => self.block.as_mut().map(|b| &mut b.nodes),
            L::Hash => self.hash.as_mut().map(|b| &mut b.nodes),
            L::Seek => self.seek.as_mut().map(|b| &mut b.nodes),
            L::Up => self.upgrade.as_mut().map(|b| &mut b.nodes),
            L::Add => self.upgrade.as_mut().map(|b| &mut b.additional_nodes),
        }
    }
}

#[derive(Clone, Copy, Debug, PartialEq, Eq, Hash, Serialize, Deserialize)]
pub enum L {
    Block,
    Hash,
    Seek,
    Up,
    Add,
}
pub const LISTS: [L; 5] = [L::Block, L::Hash, L::Seek, L::Up, L::Add];

#[derive(Clone, Copy, Debug, PartialEq, Eq, Hash, Serialize, Deserialize)]
pub enum Sec {
    Block,
    Hash,
    Seek,
    Upgrade,
}

#[derive(Clone, Debug, PartialEq, Eq, Hash, Serialize, Deserialize)]
pub enum Alt {
    ValueFlip { byte: usize, bit: u8 },
    ValueExtend,
    ValueTruncate,
    NodeHashFlip { list: L, pos: usize, byte: usize },
    SigFlip { pos: usize },
    SigLen { delta: i8 },
    NodeIndex { list: L, pos: usize, delta: i8 },
    NodeSize { list: L, pos: usize, delta: i8 },
    BlockIndex(i8),
    HashIndex(i8),
    SeekBytes(i8),
    UpStart(i8),
    UpLength(i8),
    Fork(i8),
    NodeDrop { list: L, pos: usize },
    NodeDup { list: L, pos: usize },
    NodeSwap { list: L, pos: usize },
    NodeInsert { list: L, pos: usize },
    RemoveSection(Sec),
    /// Move one hash byte between two adjacent nodes of a list (33 + 31 or 31 + 33 bytes): the
    /// concatenation the parent hash is computed over stays the same when the two are siblings.
    NodeHashShift { list: L, pos: usize, to_lower: bool },
}

impl Alt {
    /// Alterations the scheme need not detect (C04 counts them but never requires refusal).
    pub fn harmless_class(&self) -> bool {
        matches!(self, Alt::SeekBytes(_) | Alt::RemoveSection(_))
    }
}

const LIMIT: u64 = 1 << 40;

fn bump(v: u64, d: i8) -> Option<u64> {
    let n = if d >= 0 { v.checked_add(d as u64)? } else { v.checked_sub((-d) as u64)? };
    if n < LIMIT && n != v {
        Some(n)
    } else {
        None
    }
}

/// Is the size field of this node one the scheme does not authenticate individually?
/// (bottom node of a hash-only section = first node of hash.nodes; bottom node of a seek
/// section = first node of seek.nodes)
pub fn unauthenticated_size(p: &PProof, list: L, pos: usize) -> bool {
    match list {
        L::Hash => pos == 0 && p.block.is_none(),
        L::Seek => pos == 0,
        _ => false,
    }
}

/// The complete single-field alteration set for a proof. Returns (alterations, excluded).
pub fn alterations(p: &PProof) -> (Vec<Alt>, u64) {
    let mut out = vec![];
    let mut excluded = 0u64;
    if let Some(b) = &p.block {
        let n = b.value.len();
        let bytes: Vec<usize> = if n <= 64 { (0..n).collect() } else { vec![0, 1, 31, 32, 63, 64, n / 2, n - 2, n - 1] };
        for byte in bytes {
            out.push(Alt::ValueFlip { byte, bit: (byte % 8) as u8 });
        }
        out.push(Alt::ValueExtend);
        if n > 0 {
            out.push(Alt::ValueTruncate);
        }
        for d in [-1i8, 1] {
            if bump(b.index, d).is_some() {
                out.push(Alt::BlockIndex(d));
            }
        }
    }
    if let Some(h) = &p.hash {
        for d in [-1i8, 1] {
            if bump(h.index, d).is_some() {
                out.push(Alt::HashIndex(d));
            }
        }
    }
    if let Some(s) = &p.seek {
        for d in [-1i8, 1] {
            if bump(s.bytes, d).is_some() {
                out.push(Alt::SeekBytes(d));
            }
        }
    }
    if let Some(u) = &p.upgrade {
        for d in [-1i8, 1] {
            if bump(u.start, d).is_some() {
                out.push(Alt::UpStart(d));
            }
            if bump(u.length, d).is_some() {
                out.push(Alt::UpLength(d));
            }
        }
        let n = u.signature.len();
        for pos in [0usize, 31, 32, 63] {
            if pos < n {
                out.push(Alt::SigFlip { pos });
            }
        }
        out.push(Alt::SigLen { delta: 1 });
        if n > 0 {
            out.push(Alt::SigLen { delta: -1 });
        }
    }
    for d in [-1i8, 1] {
        if bump(p.fork, d).is_some() {
            out.push(Alt::Fork(d));
        }
    }
    for list in LISTS {
        if let Some(nodes) = p.list(list) {
            for (pos, node) in nodes.iter().enumerate() {
                out.push(Alt::NodeHashFlip { list, pos, byte: (pos * 7 + 3) % node.hash.len().max(1) });
                for d in [-1i8, 1] {
                    if bump(node.index, d).is_some() {
                        out.push(Alt::NodeIndex { list, pos, delta: d });
                    }
                    if bump(node.size, d).is_some() {
                        if unauthenticated_size(p, list, pos) {
                            excluded += 1;
                        } else {
                            out.push(Alt::NodeSize { list, pos, delta: d });
                        }
                    }
                }
                out.push(Alt::NodeDrop { list, pos });
                out.push(Alt::NodeDup { list, pos });
                if pos + 1 < nodes.len() {
                    out.push(Alt::NodeSwap { list, pos });
                    if node.hash.len() == 32 && nodes[pos + 1].hash.len() == 32 {
                        out.push(Alt::NodeHashShift { list, pos, to_lower: true });
                        out.push(Alt::NodeHashShift { list, pos, to_lower: false });
                    }
                }
            }
            for pos in 0..=nodes.len() {
                out.push(Alt::NodeInsert { list, pos });
            }
        }
    }
    if p.block.is_some() {
        out.push(Alt::RemoveSection(Sec::Block));
    }
    if p.hash.is_some() {
        out.push(Alt::RemoveSection(Sec::Hash));
    }
    if p.seek.is_some() {
        out.push(Alt::RemoveSection(Sec::Seek));
    }
    if p.upgrade.is_some() {
        out.push(Alt::RemoveSection(Sec::Upgrade));
    }
    (out, excluded)
}

/// Apply one alteration; false if it does not apply to this proof (shape changed).
pub fn apply_alt(p: &mut PProof, a: &Alt) -> bool {
    match a {
        Alt::ValueFlip { byte, bit } => match &mut p.block {
            Some(b) if *byte < b.value.len() => {
                b.value[*byte] ^= 1 << (bit % 8);
                true
            }
            _ => false,
        },
        Alt::ValueExtend => match &mut p.block {
            Some(b) => {
                b.value.push(0x5a);
                true
            }
            _ => false,
        },
        Alt::ValueTruncate => match &mut p.block {
            Some(b) if !b.value.is_empty() => {
                b.value.pop();
                true
            }
            _ => false,
        },
        Alt::NodeHashFlip { list, pos, byte } => match p.list_mut(*list) {
            Some(nodes) if *pos < nodes.len() && *byte < nodes[*pos].hash.len() => {
                nodes[*pos].hash[*byte] ^= 0x10;
                true
            }
            _ => false,
        },
        Alt::SigFlip { pos } => match &mut p.upgrade {
            Some(u) if *pos < u.signature.len() => {
                u.signature[*pos] ^= 0x04;
                true
            }
            _ => false,
        },
        Alt::SigLen { delta } => match &mut p.upgrade {
            Some(u) => {
                if *delta > 0 {
                    u.signature.push(0);
                    true
                } else if !u.signature.is_empty() {
                    u.signature.pop();
                    true
                } else {
                    false
                }
            }
            _ => false,
        },
        Alt::NodeIndex { list, pos, delta } => match p.list_mut(*list) {
            Some(nodes) if *pos < nodes.len() => match bump(nodes[*pos].index, *delta) {
                Some(v) => {
                    nodes[*pos].index = v;
                    true
                }
                None => false,
            },
            _ => false,
        },
        Alt::NodeSize { list, pos, delta } => {
            if unauthenticated_size(p, *list, *pos) {
                return false;
            }
            match p.list_mut(*list) {
                Some(nodes) if *pos < nodes.len() => match bump(nodes[*pos].size, *delta) {
                    Some(v) => {
                        nodes[*pos].size = v;
                        true
                    }
                    None => false,
                },
                _ => false,
            }
        }
        Alt::BlockIndex(d) => match &mut p.block {
            Some(b) => match bump(b.index, *d) {
                Some(v) => {
                    b.index = v;
                    true
                }
                None => false,
            },
            _ => false,
        },
        Alt::HashIndex(d) => match &mut p.hash {
            Some(b) => match bump(b.index, *d) {
                Some(v) => {
                    b.index = v;
                    true
                }
                None => false,
            },
            _ => false,
        },
        Alt::SeekBytes(d) => match &mut p.seek {
            Some(b) => match bump(b.bytes, *d) {
                Some(v) => {
                    b.bytes = v;
                    true
                }
                None => false,
            },
            _ => false,
        },
        Alt::UpStart(d) => match &mut p.upgrade {
            Some(b) => match bump(b.start, *d) {
                Some(v) => {
                    b.start = v;
                    true
                }
                None => false,
            },
            _ => false,
        },
        Alt::UpLength(d) => match &mut p.upgrade {
            Some(b) => match bump(b.length, *d) {
                Some(v) => {
                    b.length = v;
                    true
                }
                None => false,
            },
            _ => false,
        },
        Alt::Fork(d) => match bump(p.fork, *d) {
            Some(v) => {
                p.fork = v;
                true
            }
            None => false,
        },
        Alt::NodeDrop { list, pos } => match p.list_mut(*list) {
            Some(nodes) if *pos < nodes.len() => {
                nodes.remove(*pos);
                true
            }
            _ => false,
        },
        Alt::NodeDup { list, pos } => match p.list_mut(*list) {
            Some(nodes) if *pos < nodes.len() => {
                let n = nodes[*pos].clone();
                nodes.insert(*pos, n);
                true
            }
            _ => false,
        },
        Alt::NodeSwap { list, pos } => match p.list_mut(*list) {
            Some(nodes) if *pos + 1 < nodes.len() => {
                nodes.swap(*pos, *pos + 1);
                true
            }
            _ => false,
        },
        Alt::NodeHashShift { list, pos, to_lower } => match p.list_mut(*list) {
            Some(nodes) if *pos + 1 < nodes.len() && !nodes[*pos].hash.is_empty() && !nodes[*pos + 1].hash.is_empty() => {
                // lower = the node with the smaller tree index (the left one when they are siblings)
                let (lo, hi) = if nodes[*pos].index < nodes[*pos + 1].index { (*pos, *pos + 1) } else { (*pos + 1, *pos) };
                if *to_lower {
                    let b = nodes[hi].hash.remove(0);
                    nodes[lo].hash.push(b);
                } else {
                    let b = nodes[lo].hash.pop().unwrap();
                    nodes[hi].hash.insert(0, b);
                }
                true
            }
            _ => false,
        },
        Alt::NodeInsert { list, pos } => match p.list_mut(*list) {
            Some(nodes) if *pos <= nodes.len() => {
                let idx = if *pos < nodes.len() { nodes[*pos].index ^ 2 } else { nodes.last().map(|n| n.index + 2).unwrap_or(0) };
                nodes.insert(*pos, PNode { index: idx, size: 1, hash: vec![0x77; 32] });
                true
            }
            _ => false,
        },
        Alt::RemoveSection(s) => match s {
            Sec::Block => p.block.take().is_some(),
            Sec::Hash => p.hash.take().is_some(),
            Sec::Seek => p.seek.take().is_some(),
            Sec::Upgrade => p.upgrade.take().is_some(),
        },
    }
}
