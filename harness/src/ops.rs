//! Writer-side operation alphabet `H`, its generators, and the model-checked simulator.

use crate::backend::Disk;
use crate::exec::{block_on, catch, Panicked};
use crate::hc::{self, brief_get, err_class, squash_digits, CallResult, Obs, FAR_PROBES};
use crate::model::{sel, Blk, ListModel};
use crate::runner::{Check, Failure};
use hypercore::{Hypercore, HypercoreError, PartialKeypair};
use proptest::prelude::*;
use serde::{Deserialize, Serialize};

#[derive(Clone, Copy, Debug, PartialEq, Eq, Hash, Serialize, Deserialize)]
pub enum Idx {
    /// selector onto 0..length+3
    Near(u16),
    /// index into FAR_PROBES
    Far(u8),
}

#[derive(Clone, Debug, PartialEq, Eq, Hash, Serialize, Deserialize)]
pub enum Op {
    Append(Blk),
    Batch(Vec<Blk>),
    /// batch of n one-byte blocks
    Big(u32),
    /// clear(start, end): start = sel(a, length) (skipped when length == 0),
    /// end = min(start + 1 + n, 2*length + 2)
    Clear { a: u16, n: u32 },
    Get(Idx),
    Has(Idx),
    Info,
    Reopen,
    MakeReadOnly,
}

impl Op {
    pub fn is_mutating(&self) -> bool {
        matches!(self, Op::Append(_) | Op::Batch(_) | Op::Big(_) | Op::Clear { .. } | Op::MakeReadOnly)
    }
}

pub fn big_block(i: u64) -> Vec<u8> {
    vec![(i % 251) as u8]
}

// ---------------------------------------------------------------- generators

pub fn blk_strategy() -> impl Strategy<Value = Blk> {
    let len = prop_oneof![
        3 => Just(0u32),
        3 => Just(1u32),
        10 => 2u32..=64,
        2 => 65u32..=600,
        1 => prop_oneof![3 => 4096u32..=16384, 1 => 65_000u32..=140_000],
    ];
    (len, any::<u8>()).prop_map(|(len, fill)| Blk { len, fill })
}

pub fn small_blk_strategy() -> impl Strategy<Value = Blk> {
    let len = prop_oneof![2 => Just(0u32), 2 => Just(1u32), 6 => 2u32..=40];
    (len, any::<u8>()).prop_map(|(len, fill)| Blk { len, fill })
}

pub fn idx_strategy() -> impl Strategy<Value = Idx> {
    prop_oneof![
        8 => any::<u16>().prop_map(Idx::Near),
        1 => (0u8..FAR_PROBES.len() as u8).prop_map(Idx::Far),
    ]
}

pub fn clear_strategy() -> impl Strategy<Value = Op> {
    let n = prop_oneof![6 => 0u32..=2, 3 => 3u32..=12, 1 => 13u32..=200];
    (any::<u16>(), n).prop_map(|(a, n)| Op::Clear { a, n })
}

/// The common history alphabet (no big batches, no make_read_only).
pub fn op_strategy() -> impl Strategy<Value = Op> {
    prop_oneof![
        6 => blk_strategy().prop_map(Op::Append),
        3 => prop::collection::vec(small_blk_strategy(), 0..8).prop_map(Op::Batch),
        4 => clear_strategy(),
        2 => idx_strategy().prop_map(Op::Get),
        1 => idx_strategy().prop_map(Op::Has),
        1 => Just(Op::Info),
        4 => Just(Op::Reopen),
        // a batch that takes the log to/over 252..254 blocks (compact-encoding width boundary)
        1 => (240u32..=256).prop_map(Op::Big),
    ]
}

/// Only mutating ops + reopen (for crash / fault enumeration, where reads issue no writes).
pub fn mut_op_strategy() -> impl Strategy<Value = Op> {
    prop_oneof![
        6 => small_blk_strategy().prop_map(Op::Append),
        3 => prop::collection::vec(small_blk_strategy(), 0..5).prop_map(Op::Batch),
        4 => clear_strategy(),
        3 => Just(Op::Reopen),
    ]
}

pub const BIG_SIZES: [u32; 13] = [8191, 8192, 8193, 32767, 32768, 32769, 40000, 65535, 65537, 24576, 98304, 98305, 110000];

pub fn big_op_strategy() -> impl Strategy<Value = Op> {
    prop_oneof![
        3 => (0usize..BIG_SIZES.len()).prop_map(|i| Op::Big(BIG_SIZES[i])),
        4 => small_blk_strategy().prop_map(Op::Append),
        4 => clear_strategy(),
        3 => boundary_clear_strategy(),
        5 => page_clear_strategy(),
        3 => Just(Op::Reopen),
        1 => idx_strategy().prop_map(Op::Get),
    ]
}

/// A clear whose start lies just below a page boundary: encoded through `ClearAt`.
pub fn boundary_clear_strategy() -> impl Strategy<Value = Op> {
    // a chosen so that sel(a, len) lands near a boundary is not expressible without the
    // length; instead use n large enough to straddle: handled by `Op::Clear` with a picked
    // from a small set of fractions and n up to 5.
    (prop_oneof![Just(0x1fffu16), Just(0x3fff), Just(0x7fff), Just(0x8000), Just(0xbfff), Just(0xffff)], 0u32..6)
        .prop_map(|(a, n)| Op::Clear { a, n })
}

// ---------------------------------------------------------------- environment

/// How cores are created/opened (so the same simulator runs on every backend).
pub trait Env {
    fn create_with(&self, kp: PartialKeypair, cache: hc::CacheCfg) -> CallResult<Hypercore>;
    fn open_with(&self, cache: hc::CacheCfg) -> CallResult<Hypercore>;
    /// Create a core over whatever the storage holds, with `overwrite = true`.
    fn recreate_with(&self, kp: PartialKeypair, cache: hc::CacheCfg) -> CallResult<Hypercore>;
    /// A new, empty storage of the same kind.
    fn fresh_like(&self) -> Self;
    /// Contents of the four files as read back through the backend.
    fn files(&self) -> crate::backend::Files;
    fn create(&self, kp: PartialKeypair) -> CallResult<Hypercore> {
        self.create_with(kp, hc::CacheCfg::Off)
    }
    fn open(&self) -> CallResult<Hypercore> {
        self.open_with(hc::CacheCfg::Off)
    }
}

impl Env for Disk {
    fn create_with(&self, kp: PartialKeypair, cache: hc::CacheCfg) -> CallResult<Hypercore> {
        hc::create_with(self, kp, cache)
    }
    fn open_with(&self, cache: hc::CacheCfg) -> CallResult<Hypercore> {
        hc::open_with(self, cache)
    }
    fn recreate_with(&self, kp: PartialKeypair, cache: hc::CacheCfg) -> CallResult<Hypercore> {
        hc::create_overwrite_with(self, kp, cache)
    }
    fn fresh_like(&self) -> Self {
        let d = Disk::new();
        d.0.journaling.store(self.0.journaling.load(std::sync::atomic::Ordering::SeqCst), std::sync::atomic::Ordering::SeqCst);
        d
    }
    fn files(&self) -> crate::backend::Files {
        self.snapshot()
    }
}

// ---------------------------------------------------------------- outcomes

/// Raw outcome of one step (used for differential comparison too).
#[derive(Clone, Debug, PartialEq, Eq, Serialize, Deserialize)]
pub enum Out {
    Appended { length: u64, byte_length: u64 },
    Cleared,
    Got(Option<Vec<u8>>),
    Has(bool),
    Info { length: u64, byte_length: u64, contiguous: u64, fork: u64, writeable: bool },
    Reopened,
    ReadOnly(bool),
    Skipped,
    Err(String),
}

pub fn panic_failure(ctx: &str, p: &Panicked) -> Failure {
    Failure::new(format!("panic:{}", p.signature()), format!("{ctx}: panicked at {}", p.0))
}

pub fn err_kind(e: &HypercoreError) -> String {
    let msg = squash_digits(&e.to_string());
    let msg: String = msg.chars().take(70).collect();
    format!("{}:{}", err_class(e), msg)
}

/// Resolve an abstract clear against a log of `len` blocks; None = skipped (empty log).
pub fn clear_range_for(len: u64, a: u16, n: u32) -> Option<(u64, u64)> {
    if len == 0 {
        return None;
    }
    if n & PAGE_RELATIVE != 0 {
        // page-relative form: start = (page + 1) * 32768 - back, count = low bits of n
        let page = (a >> 12) as u64;
        let back = (a & 0xfff) as u64;
        let count = (n & !PAGE_RELATIVE) as u64;
        let start = ((page + 1) * 32768).saturating_sub(back);
        if start < len {
            return Some((start, (start + 1 + count).min(2 * len + 2)));
        }
        // the log is shorter than that: fall back to the fractional form
        let start = sel(a, len);
        return Some((start, (start + 1 + count.min(40)).min(2 * len + 2)));
    }
    let start = sel(a, len);
    let end = (start + 1 + n as u64).min(2 * len + 2);
    Some((start, end))
}

fn pclear(page: u16, back: u16, count: u32) -> Op {
    Op::Clear { a: (page << 12) | (back & 0xfff), n: PAGE_RELATIVE | count }
}

/// Short runs of clears that interact across bitfield pages: a whole page followed by a clear that
/// starts where it ended; a clear up to a page end followed by one that overlaps it from the left;
/// single page-relative clears.
pub fn page_clear_chunk_strategy() -> impl Strategy<Value = Vec<Op>> {
    prop_oneof![
        3 => page_clear_strategy().prop_map(|c| vec![c]),
        2 => (0u16..3, 0u32..40).prop_map(|(p, c)| vec![pclear(p, 0, 32767), pclear(p + 1, 0, c)]),
        2 => (0u16..3, 1u16..1500, 0u16..1500, 0u32..1500).prop_map(|(p, b, d, e)| vec![pclear(p, b, (b - 1) as u32), pclear(p, b + d, d as u32 + e)]),
        1 => (0u16..3, 1u16..40, 0u32..40).prop_map(|(p, b, c)| vec![pclear(p, b, b as u32 + c), pclear(p, 0, 32767)]),
        1 => Just(vec![Op::Reopen]),
    ]
}

/// Histories on a core of 3-4 bitfield pages made mostly of page-relative clears.
pub fn page_clear_history_strategy() -> impl Strategy<Value = Vec<Op>> {
    (prop_oneof![Just(65537u32), Just(70000), Just(98305), Just(110000), Just(131073)], prop::collection::vec(page_clear_chunk_strategy(), 2..6)).prop_map(|(n, chunks)| {
        let mut v = vec![Op::Big(n)];
        for mut c in chunks {
            v.append(&mut c);
        }
        v.push(Op::Reopen);
        v
    })
}

/// Flag in `Op::Clear::n` selecting the page-relative form (see `clear_range_for`).
pub const PAGE_RELATIVE: u32 = 0x8000_0000;

/// Clears placed relative to bitfield page ends: starting a few (or a few hundred) blocks before
/// or exactly at the end of page 0..3, covering a few blocks, a bitfield word, a whole page or more.
pub fn page_clear_strategy() -> impl Strategy<Value = Op> {
    let back = prop_oneof![4 => 0u16..4, 2 => 30u16..36, 2 => 600u16..1600, 1 => 0u16..4096];
    let count = prop_oneof![4 => 0u32..6, 2 => 30u32..34, 2 => 500u32..1800, 1 => Just(32767u32), 1 => Just(32768u32), 1 => Just(40000u32)];
    (0u16..4, back, count).prop_map(|(page, back, count)| Op::Clear { a: (page << 12) | back, n: PAGE_RELATIVE | count })
}

/// The model state after `op` succeeded on a core in state `m`.
pub fn model_after(m: &ListModel, op: &Op) -> ListModel {
    let mut out = m.clone();
    match op {
        Op::Append(b) => {
            if m.writeable {
                out.append(b.bytes())
            }
        }
        Op::Batch(bs) => {
            if m.writeable {
                bs.iter().for_each(|b| out.append(b.bytes()))
            }
        }
        Op::Big(n) => {
            if m.writeable {
                let base = m.len();
                (0..*n as u64).for_each(|i| out.append(big_block(base + i)))
            }
        }
        Op::Clear { a, n } => {
            if let Some((s, e)) = clear_range_for(m.len(), *a, *n) {
                out.clear(s, e);
            }
        }
        Op::MakeReadOnly => out.writeable = false,
        Op::Get(_) | Op::Has(_) | Op::Info | Op::Reopen => {}
    }
    out
}

// ---------------------------------------------------------------- simulator

#[derive(Clone, Copy, Debug, PartialEq, Eq)]
pub enum ObsPolicy {
    /// observe every index <= length+2 (+ far probes) after every step
    Full,
    /// full when length <= 24, otherwise touched range ± 2 and a few derived indices;
    /// full after reopen and at the end
    Windowed,
    /// only `has` for all indices, `get` on a sample (big cores)
    Scaled,
}

pub struct WSim<E: Env + Clone> {
    pub env: E,
    pub core: Option<Hypercore>,
    pub model: ListModel,
    pub step: usize,
    pub policy: ObsPolicy,
    /// compare info().contiguous_length with the model (C08); C01 only compares it
    /// differentially across reopen.
    pub check_contig: bool,
    pub reopens: u32,
    pub clears: u32,
    pub last_touched: (u64, u64),
}

impl<E: Env + Clone> WSim<E> {
    /// Create a fresh writer core.
    pub fn create(env: &E, policy: ObsPolicy) -> Result<Self, Failure> {
        Self::create_with_key(env, policy, hc::test_keypair())
    }

    pub fn create_with_key(env: &E, policy: ObsPolicy, kp: PartialKeypair) -> Result<Self, Failure> {
        let core = match env.create(kp) {
            Ok(Ok(c)) => c,
            Ok(Err(e)) => return Err(Failure::new(format!("create-error:{}", err_kind(&e)), format!("creating a core failed: {e}"))),
            Err(p) => return Err(panic_failure("create", &p)),
        };
        Ok(WSim {
            env: env.clone(),
            core: Some(core),
            model: ListModel::new(),
            step: 0,
            policy,
            check_contig: false,
            reopens: 0,
            clears: 0,
            last_touched: (0, 0),
        })
    }

    /// Attach to an already opened core whose state is `model`.
    pub fn attach(env: &E, core: Hypercore, model: ListModel, policy: ObsPolicy) -> Self {
        WSim {
            env: env.clone(),
            core: Some(core),
            model,
            step: 0,
            policy,
            check_contig: false,
            reopens: 0,
            clears: 0,
            last_touched: (0, 0),
        }
    }

    pub fn core(&mut self) -> &mut Hypercore {
        self.core.as_mut().expect("core present")
    }

    /// Resolve an abstract index.
    pub fn idx(&self, i: &Idx) -> u64 {
        match i {
            Idx::Near(s) => sel(*s, self.model.len() + 3),
            Idx::Far(k) => FAR_PROBES[*k as usize % FAR_PROBES.len()],
        }
    }

    /// Resolve a clear; None when it must be skipped (empty log).
    pub fn clear_range(&self, a: u16, n: u32) -> Option<(u64, u64)> {
        clear_range_for(self.model.len(), a, n)
    }

    /// Execute one op against the real core, returning the raw outcome.
    pub fn exec(&mut self, op: &Op) -> Result<Out, Failure> {
        let step = self.step;
        let r: Result<Out, Panicked> = match op {
            Op::Append(b) => {
                let data = b.bytes();
                let core = self.core();
                catch(|| match block_on(core.append(&data)) {
                    Ok(o) => Out::Appended { length: o.length, byte_length: o.byte_length },
                    Err(e) => Out::Err(err_kind(&e)),
                })
            }
            Op::Batch(bs) => {
                let data: Vec<Vec<u8>> = bs.iter().map(|b| b.bytes()).collect();
                let core = self.core();
                catch(|| match block_on(core.append_batch(&data)) {
                    Ok(o) => Out::Appended { length: o.length, byte_length: o.byte_length },
                    Err(e) => Out::Err(err_kind(&e)),
                })
            }
            Op::Big(n) => {
                let base = self.model.len();
                let data: Vec<Vec<u8>> = (0..*n as u64).map(|i| big_block(base + i)).collect();
                let core = self.core();
                catch(|| match block_on(core.append_batch(&data)) {
                    Ok(o) => Out::Appended { length: o.length, byte_length: o.byte_length },
                    Err(e) => Out::Err(err_kind(&e)),
                })
            }
            Op::Clear { a, n } => match self.clear_range(*a, *n) {
                None => Ok(Out::Skipped),
                Some((s, e)) => {
                    let core = self.core();
                    catch(|| match block_on(core.clear(s, e)) {
                        Ok(()) => Out::Cleared,
                        Err(e) => Out::Err(err_kind(&e)),
                    })
                }
            },
            Op::Get(i) => {
                let i = self.idx(i);
                let core = self.core();
                catch(|| match block_on(core.get(i)) {
                    Ok(v) => Out::Got(v),
                    Err(e) => Out::Err(err_kind(&e)),
                })
            }
            Op::Has(i) => {
                let i = self.idx(i);
                let core = self.core();
                catch(|| Out::Has(core.has(i)))
            }
            Op::Info => {
                let core = self.core();
                catch(|| {
                    let i = core.info();
                    Out::Info {
                        length: i.length,
                        byte_length: i.byte_length,
                        contiguous: i.contiguous_length,
                        fork: i.fork,
                        writeable: i.writeable,
                    }
                })
            }
            Op::Reopen => {
                self.core = None;
                match self.env.open() {
                    Ok(Ok(c)) => {
                        self.core = Some(c);
                        Ok(Out::Reopened)
                    }
                    Ok(Err(e)) => Ok(Out::Err(err_kind(&e))),
                    Err(p) => Err(p),
                }
            }
            Op::MakeReadOnly => {
                let core = self.core();
                catch(|| match block_on(core.make_read_only()) {
                    Ok(b) => Out::ReadOnly(b),
                    Err(e) => Out::Err(err_kind(&e)),
                })
            }
        };
        r.map_err(|p| panic_failure(&format!("step {step} {op:?}"), &p))
    }

    /// Compare a raw outcome with the model's expectation and advance the model.
    pub fn check_and_advance(&mut self, op: &Op, out: &Out) -> Check {
        let step = self.step;
        let fail = |kind: String, d: String| Err(Failure::new(kind, format!("step {step} {op:?}: {d}")));
        match op {
            Op::Append(_) | Op::Batch(_) | Op::Big(_) => {
                let blocks: Vec<Vec<u8>> = match op {
                    Op::Append(b) => vec![b.bytes()],
                    Op::Batch(bs) => bs.iter().map(|b| b.bytes()).collect(),
                    Op::Big(n) => {
                        let base = self.model.len();
                        (0..*n as u64).map(|i| big_block(base + i)).collect()
                    }
                    _ => unreachable!(),
                };
                if !self.model.writeable {
                    // C12 (1): a core without secret key refuses appends; an empty batch's
                    // result is not pinned by the statement.
                    return match out {
                        Out::Err(k) if k.starts_with("NotWritable") => Ok(()),
                        Out::Appended { length, byte_length }
                            if blocks.is_empty() && *length == self.model.len() && *byte_length == self.model.byte_length =>
                        {
                            Ok(())
                        }
                        Out::Err(_) if blocks.is_empty() => Ok(()),
                        other => fail("append-on-readonly".into(), format!("expected NotWritable, got {other:?}")),
                    };
                }
                let first = self.model.len();
                for b in blocks {
                    self.model.append(b);
                }
                self.last_touched = (first, self.model.len());
                match out {
                    Out::Appended { length, byte_length } => {
                        if *length != self.model.len() || *byte_length != self.model.byte_length {
                            return fail(
                                "append-outcome-mismatch".into(),
                                format!(
                                    "outcome ({length},{byte_length}) but model ({},{})",
                                    self.model.len(),
                                    self.model.byte_length
                                ),
                            );
                        }
                        Ok(())
                    }
                    Out::Err(k) => fail(format!("append-error:{k}"), "append returned an error".into()),
                    o => fail("append-odd".into(), format!("{o:?}")),
                }
            }
            Op::Clear { a, n } => match self.clear_range(*a, *n) {
                None => Ok(()),
                Some((s, e)) => {
                    self.model.clear(s, e);
                    self.clears += 1;
                    self.last_touched = (s, e.min(self.model.len()));
                    match out {
                        Out::Cleared => Ok(()),
                        Out::Err(k) => fail(format!("clear-error:{k}"), format!("clear({s},{e}) returned an error")),
                        o => fail("clear-odd".into(), format!("{o:?}")),
                    }
                }
            },
            Op::Get(i) => {
                let i = self.idx(i);
                let exp = self.model.get(i).cloned();
                match out {
                    Out::Got(v) if *v == exp => Ok(()),
                    Out::Got(v) => fail(
                        "get-mismatch".into(),
                        format!("get({i}) = {} but model {}", brief_get(&Ok(v.clone())), brief_get(&Ok(exp))),
                    ),
                    Out::Err(k) => fail(format!("get-error:{k}"), format!("get({i}) returned an error")),
                    o => fail("get-odd".into(), format!("{o:?}")),
                }
            }
            Op::Has(i) => {
                let i = self.idx(i);
                match out {
                    Out::Has(b) if *b == self.model.has(i) => Ok(()),
                    o => fail("has-mismatch".into(), format!("has({i}) = {o:?} but model {}", self.model.has(i))),
                }
            }
            Op::Info => match out {
                Out::Info { length, byte_length, fork, writeable, contiguous } => {
                    if *length != self.model.len()
                        || *byte_length != self.model.byte_length
                        || *fork != self.model.fork
                        || *writeable != self.model.writeable
                    {
                        return fail("info-mismatch".into(), format!("{out:?} vs model len {} bytes {}", self.model.len(), self.model.byte_length));
                    }
                    if self.check_contig && *contiguous != self.model.contiguous() {
                        return fail(
                            "contiguous-mismatch".into(),
                            format!("contiguous_length {contiguous} but model {}", self.model.contiguous()),
                        );
                    }
                    Ok(())
                }
                o => fail("info-odd".into(), format!("{o:?}")),
            },
            Op::Reopen => {
                self.reopens += 1;
                match out {
                    Out::Reopened => Ok(()),
                    Out::Err(k) => fail(format!("reopen-error:{k}"), "open(true) on the same storage failed".into()),
                    o => fail("reopen-odd".into(), format!("{o:?}")),
                }
            }
            Op::MakeReadOnly => {
                let exp = self.model.writeable;
                self.model.writeable = false;
                match out {
                    Out::ReadOnly(b) if *b == exp => Ok(()),
                    Out::ReadOnly(b) => fail("make-read-only-result".into(), format!("returned {b}, expected {exp}")),
                    Out::Err(k) => fail(format!("make-read-only-error:{k}"), "make_read_only failed".into()),
                    o => fail("make-read-only-odd".into(), format!("{o:?}")),
                }
            }
        }
    }

    /// Indices to observe after a step under the current policy.
    fn observe_set(&self, full: bool) -> (Vec<u64>, bool) {
        let len = self.model.len();
        match self.policy {
            ObsPolicy::Full => ((0..len + 3).collect(), true),
            ObsPolicy::Windowed => {
                if (full && len <= 400) || len <= 24 {
                    ((0..len + 3).collect(), true)
                } else if full {
                    // long log: both ends, every 37th index, the touched window
                    let mut v: Vec<u64> = (0..24).collect();
                    v.extend((0..len + 3).step_by(37));
                    v.extend(len.saturating_sub(40)..len + 3);
                    let (a, b) = self.last_touched;
                    v.extend(a.saturating_sub(2)..(b + 2).min(len + 3).min(a + 40));
                    v.sort();
                    v.dedup();
                    (v, true)
                } else {
                    let (a, b) = self.last_touched;
                    let mut v: Vec<u64> = (a.saturating_sub(2)..(b + 2).min(len + 3)).take(40).collect();
                    let mut x = crate::runner::mix(self.step as u64, len);
                    for _ in 0..6 {
                        x = crate::runner::mix(x, 77);
                        v.push(x % (len + 3));
                    }
                    v.push(0);
                    v.push(len - 1);
                    v.push(len);
                    v.sort();
                    v.dedup();
                    (v, false)
                }
            }
            ObsPolicy::Scaled => {
                // get() on boundaries + touched + pseudo-random sample; has() on all is done separately
                let mut v: Vec<u64> = vec![];
                let (a, b) = self.last_touched;
                for i in a.saturating_sub(2)..(a + 3).min(len + 3) {
                    v.push(i);
                }
                for i in b.saturating_sub(3)..(b + 2).min(len + 3) {
                    v.push(i);
                }
                for bnd in [8192u64, 32768, 65536, 98304] {
                    for d in [-2i64, -1, 0, 1] {
                        let i = bnd as i64 + d;
                        if (i as u64) < len + 3 {
                            v.push(i as u64);
                        }
                    }
                }
                let mut x = crate::runner::mix(self.step as u64, len);
                for _ in 0..24 {
                    x = crate::runner::mix(x, 91);
                    v.push(x % (len + 3));
                }
                v.push(0);
                if len > 0 {
                    v.push(len - 1);
                }
                v.push(len);
                v.push(len + 1);
                v.sort();
                v.dedup();
                (v, false)
            }
        }
    }

    /// Check the core's observable state against the model.
    pub fn observe_check(&mut self, full: bool, tag: &str) -> Check {
        let step = self.step;
        let (idx, with_far) = self.observe_set(full);
        let len = self.model.len();
        let check_contig = self.check_contig;
        let scaled = self.policy == ObsPolicy::Scaled;
        let model = &self.model;
        let core = self.core.as_mut().expect("core");
        let r = catch(|| -> Check {
            let info = core.info();
            if info.length != model.len() || info.byte_length != model.byte_length {
                return Err(Failure::new(
                    format!("info-mismatch:{tag}"),
                    format!(
                        "step {step}: info ({},{}) but model ({},{})",
                        info.length,
                        info.byte_length,
                        model.len(),
                        model.byte_length
                    ),
                ));
            }
            if info.fork != model.fork {
                return Err(Failure::new(format!("fork-mismatch:{tag}"), format!("step {step}: fork {} but model {}", info.fork, model.fork)));
            }
            if info.writeable != model.writeable {
                return Err(Failure::new(
                    format!("writeable-mismatch:{tag}"),
                    format!("step {step}: writeable {} but model {}", info.writeable, model.writeable),
                ));
            }
            if check_contig && info.contiguous_length != model.contiguous() {
                return Err(Failure::new(
                    format!("contiguous-mismatch:{tag}"),
                    format!("step {step}: contiguous_length {} but model {}", info.contiguous_length, model.contiguous()),
                ));
            }
            if scaled {
                // has() for every index below length and the following pages' probes
                for i in 0..len {
                    let h = core.has(i);
                    if h != model.has(i) {
                        return Err(Failure::new(
                            format!("has-mismatch:{tag}"),
                            format!("step {step}: has({i}) = {h} but model {} (length {len})", model.has(i)),
                        ));
                    }
                }
                let last_page = len / 32768;
                for p in last_page..last_page + 5 {
                    for off in [0u64, 1, 8191, 8192, 8193, 32767] {
                        let i = p * 32768 + off;
                        if i >= len && core.has(i) {
                            return Err(Failure::new(
                                format!("has-beyond-length:{tag}"),
                                format!("step {step}: has({i}) is true but length is {len}"),
                            ));
                        }
                    }
                }
            }
            let mut all: Vec<u64> = idx.clone();
            if with_far || scaled {
                for p in FAR_PROBES {
                    if p >= len + 3 {
                        all.push(p);
                    }
                }
            }
            for i in all {
                let h = core.has(i);
                if h != model.has(i) {
                    let kind = if i >= len { "has-beyond-length" } else { "has-mismatch" };
                    return Err(Failure::new(
                        format!("{kind}:{tag}"),
                        format!("step {step}: has({i}) = {h} but model {} (length {len})", model.has(i)),
                    ));
                }
                match block_on(core.get(i)) {
                    Ok(v) => {
                        let exp = model.get(i);
                        if v.as_ref() != exp {
                            return Err(Failure::new(
                                format!("get-mismatch:{tag}"),
                                format!(
                                    "step {step}: get({i}) = {} but model {} (length {len})",
                                    brief_get(&Ok(v.clone())),
                                    brief_get(&Ok(exp.cloned()))
                                ),
                            ));
                        }
                    }
                    Err(e) => {
                        return Err(Failure::new(
                            format!("get-error:{tag}:{}", err_kind(&e)),
                            format!("step {step}: get({i}) returned an error: {e} (model {})", brief_get(&Ok(model.get(i).cloned()))),
                        ));
                    }
                }
            }
            Ok(())
        });
        match r {
            Ok(c) => c,
            Err(p) => Err(panic_failure(&format!("observing after step {step} ({tag})"), &p)),
        }
    }

    /// Full observation vector (for the reopen differential).
    pub fn full_obs(&mut self) -> Result<Obs, Failure> {
        let len = self.model.len();
        let upto = if self.policy == ObsPolicy::Scaled { (len + 3).min(64) } else { len + 3 };
        let step = self.step;
        hc::observe(self.core(), upto, true).map_err(|p| panic_failure(&format!("observing at step {step}"), &p))
    }

    /// One model-checked step.
    pub fn apply(&mut self, op: &Op) -> Check {
        let before = if matches!(op, Op::Reopen) { Some(self.full_obs()?) } else { None };
        let out = self.exec(op)?;
        self.check_and_advance(op, &out)?;
        if let Some(before) = before {
            let after = self.full_obs()?;
            if let Some(d) = before.diff(&after) {
                return Err(Failure::new(
                    "reopen-changed-observation",
                    format!("step {}: observation before vs after reopen differs: {d}", self.step),
                ));
            }
            self.observe_check(true, "after-reopen")?;
        } else if op.is_mutating() {
            self.observe_check(false, "live")?;
        }
        self.step += 1;
        Ok(())
    }

    pub fn run(&mut self, ops: &[Op]) -> Check {
        for op in ops {
            self.apply(op)?;
        }
        self.observe_check(true, "final")
    }
}
