//! Hand-written decoders from libFuzzer bytes (through `arbitrary::Unstructured`) into the
//! same case types the proptest stages use. Exhausted input yields defaults, never a hang.

use crate::model::Blk;
use crate::ops::{Idx, Op};
use crate::props::c04::Attack;
use crate::props::c09::{ANode, AProof, AbsReq, PeerCall, PeerCase};
use crate::refstore::{ROp, StoreDesc};
use crate::repl::{Req, SOp, Seek, Target, Upg};
use arbitrary::Unstructured;

type U<'a, 'b> = &'b mut Unstructured<'a>;

fn n(u: U, max: u32) -> u32 {
    u.int_in_range(0..=max).unwrap_or(0)
}
fn u16_(u: U) -> u16 {
    u.arbitrary::<u16>().unwrap_or(0)
}
fn u8_(u: U) -> u8 {
    u.arbitrary::<u8>().unwrap_or(0)
}
fn flag(u: U) -> bool {
    u8_(u) & 1 == 1
}

pub fn blk(u: U, big: bool) -> Blk {
    let len = match n(u, 9) {
        0 => 0,
        1 => 1,
        2..=6 => 2 + n(u, 62),
        7 | 8 => 65 + n(u, 300),
        _ => {
            if big {
                4096 + n(u, 12288)
            } else {
                2 + n(u, 38)
            }
        }
    };
    Blk { len, fill: u8_(u) }
}

fn idx(u: U) -> Idx {
    if n(u, 8) == 0 {
        Idx::Far(n(u, 9) as u8)
    } else {
        Idx::Near(u16_(u))
    }
}

fn clear(u: U) -> Op {
    let nn = match n(u, 9) {
        0..=5 => n(u, 2),
        6..=8 => 3 + n(u, 9),
        _ => 13 + n(u, 187),
    };
    Op::Clear { a: u16_(u), n: nn }
}

pub fn op(u: U) -> Op {
    match n(u, 20) {
        0..=5 => Op::Append(blk(u, true)),
        6..=8 => {
            let k = n(u, 7) as usize;
            Op::Batch((0..k).map(|_| blk(u, false)).collect())
        }
        9..=12 => clear(u),
        13 | 14 => Op::Get(idx(u)),
        15 => Op::Has(idx(u)),
        16 => Op::Info,
        _ => Op::Reopen,
    }
}

pub fn ops(data: &[u8]) -> Vec<Op> {
    let mut u = Unstructured::new(data);
    let mut out = vec![];
    while !u.is_empty() && out.len() < 40 {
        out.push(op(&mut u));
    }
    out
}

fn req(u: U) -> Req {
    let target = match n(u, 12) {
        0 | 1 => Target::None,
        2..=9 => Target::Block(u16_(u)),
        _ => Target::Hash(u16_(u)),
    };
    let upgrade = match n(u, 10) {
        0 | 1 => Upg::None,
        2..=6 => Upg::Full,
        _ => Upg::Partial(u16_(u)),
    };
    let seek = if n(u, 3) == 0 { Seek::Sel(u16_(u)) } else { Seek::None };
    Req { target, upgrade, seek }
}

fn sop(u: U) -> SOp {
    match n(u, 28) {
        0..=3 => SOp::W(Op::Append(blk(u, false))),
        4..=6 => {
            let k = 1 + n(u, 7) as usize;
            SOp::W(Op::Batch((0..k).map(|_| blk(u, false)).collect()))
        }
        7 => {
            let k = 9 + n(u, 30) as usize;
            SOp::W(Op::Batch((0..k).map(|_| blk(u, false)).collect()))
        }
        8 | 9 => SOp::W(clear(u)),
        10 => SOp::W(Op::Reopen),
        11..=24 => SOp::R(req(u)),
        25..=27 => SOp::RReopen,
        _ => SOp::Sync,
    }
}

fn session(u: U, max: usize) -> Vec<SOp> {
    let k = 3 + n(u, (max - 3) as u32) as usize;
    (0..k).map(|_| sop(u)).collect()
}

pub fn attack(data: &[u8]) -> Attack {
    let mut u = Unstructured::new(data);
    let which = u16_(&mut u);
    let combo_seed = u.arbitrary::<u64>().unwrap_or(0);
    let session = session(&mut u, 30);
    Attack { session, which, combo_seed }
}

fn bval(u: U) -> (u8, i8) {
    (n(u, 7) as u8, n(u, 4) as i8 - 2)
}
fn anodes(u: U) -> Vec<ANode> {
    let k = n(u, 5) as usize;
    (0..k).map(|_| ANode { index: bval(u), size: bval(u), fill: u8_(u) }).collect()
}
fn absreq(u: U) -> AbsReq {
    AbsReq {
        block: if flag(u) { Some((bval(u), bval(u))) } else { None },
        hash: if n(u, 2) == 0 { Some((bval(u), bval(u))) } else { None },
        seek: if n(u, 2) == 0 { Some(bval(u)) } else { None },
        upgrade: if n(u, 2) != 0 { Some((bval(u), bval(u))) } else { None },
    }
}
fn aproof(u: U) -> AProof {
    AProof {
        fork: if n(u, 9) == 0 { 1 + n(u, 1) as u8 } else { 0 },
        block: if flag(u) {
            let idx = bval(u);
            let vl = n(u, 63) as usize;
            let v = (0..vl).map(|_| u8_(u)).collect();
            Some((idx, v, anodes(u)))
        } else {
            None
        },
        hash: if n(u, 2) == 0 { Some((bval(u), anodes(u))) } else { None },
        seek: if n(u, 2) == 0 { Some((bval(u), anodes(u))) } else { None },
        upgrade: if n(u, 2) != 0 { Some((bval(u), bval(u), anodes(u), anodes(u), [0u8, 63, 64, 65][n(u, 3) as usize])) } else { None },
    }
}

pub fn peercase(data: &[u8]) -> PeerCase {
    let mut u = Unstructured::new(data);
    let session = session(&mut u, 16);
    let mut calls = vec![];
    while !u.is_empty() && calls.len() < 24 {
        let c = match n(&mut u, 2) {
            0 => PeerCall::Req { to_replica: flag(&mut u), req: absreq(&mut u) },
            1 => PeerCall::Proof { to_replica: n(&mut u, 4) != 0, proof: aproof(&mut u) },
            _ => {
                let r = req(&mut u);
                let k = 1 + n(&mut u, 2) as usize;
                PeerCall::Altered { req: r, alts: (0..k).map(|_| u16_(&mut u)).collect() }
            }
        };
        calls.push(c);
    }
    PeerCase { session, calls }
}

pub fn storedesc(data: &[u8]) -> StoreDesc {
    let mut u = Unstructured::new(data);
    let flush_sel = u16_(&mut u);
    let older_sel = u16_(&mut u);
    let rotation = n(&mut u, 3) as u8;
    let other_slot = match n(&mut u, 4) {
        0..=2 => 0,
        3 => 1,
        _ => 2,
    };
    let with_secret = n(&mut u, 9) < 7;
    let partial_tail = match n(&mut u, 4) {
        0..=2 => 0,
        3 => 1,
        _ => 2,
    };
    let stale_tail = n(&mut u, 9) < 3;
    let torn_tail = n(&mut u, 9) < 3;
    let k = n(&mut u, 9) as usize;
    let ops = (0..k)
        .map(|_| {
            if n(&mut u, 6) < 5 {
                let m = 1 + n(&mut u, 3) as usize;
                ROp::Append((0..m).map(|_| blk(&mut u, false)).collect())
            } else {
                ROp::Clear { a: u16_(&mut u), n: n(&mut u, 2) as u8 }
            }
        })
        .collect();
    let partial_mask = if n(&mut u, 4) < 2 { 0 } else { u16_(&mut u) };
    let fork_sel = n(&mut u, 7) as u8;
    StoreDesc { ops, flush_sel, older_sel, rotation, other_slot, with_secret, partial_tail, stale_tail, torn_tail, partial_mask, fork_sel }
}
