pub mod c01;
