//! C05 — Merkle tree, root hash and signature match an independent reference.

use crate::backend::Disk;
use crate::exec::{block_on, catch};
use crate::hc;
use crate::model::Blk;
use crate::mutate::PProof;
use crate::ops::*;
use crate::refstore::read_store;
use crate::reftree::RefTree;
use crate::repl::*;
use crate::runner::*;
use ed25519_dalek::VerifyingKey;
use hypercore::{RequestBlock, RequestSeek, RequestUpgrade};
use proptest::prelude::*;
use serde::{Deserialize, Serialize};
use serde_json::{json, Value};

#[derive(Clone, Debug, PartialEq, Eq, Hash, Serialize, Deserialize)]
pub enum TOp {
    Append(Blk),
    Batch(Vec<Blk>),
    Reopen,
    Clear { a: u16, n: u32 },
}

fn tblk() -> impl Strategy<Value = Blk> {
    let len = prop_oneof![2 => Just(0u32), 2 => Just(1u32), 8 => 2u32..=64, 3 => 65u32..=1000, 1 => 1000u32..=4096];
    (len, any::<u8>()).prop_map(|(len, fill)| Blk { len, fill })
}

pub fn tops_strategy() -> impl Strategy<Value = Vec<TOp>> {
    let op = prop_oneof![
        5 => tblk().prop_map(TOp::Append),
        4 => prop::collection::vec(tblk(), 0..40).prop_map(TOp::Batch),
        3 => Just(TOp::Reopen),
        1 => (any::<u16>(), 0u32..4).prop_map(|(a, n)| TOp::Clear { a, n }),
    ];
    prop::collection::vec(op, 1..30)
}

fn pubkey() -> VerifyingKey {
    hc::test_keypair().public
}

/// Compare everything persisted (tree file overlaid by unflushed entry nodes, header root hash
/// and signature, entry signatures) with the reference tree.
pub fn check_persisted(disk: &Disk, reft: &RefTree, complete: bool, ctxt: &str) -> Check {
    let files = disk.snapshot();
    let rec = read_store(&files).map_err(|e| Failure::new("layout-unreadable", format!("{ctxt}: reference reader cannot parse the storage: {e}")))?;
    let key = pubkey();
    // nodes
    for i in RefTree::full_indices(rec.length.min(reft.len)) {
        let exp = reft.get(i).expect("reference node");
        match rec.nodes.get(&i) {
            Some(n) => {
                if n.size != exp.size || n.hash != exp.hash {
                    return Err(Failure::new(
                        "tree-node-mismatch",
                        format!("{ctxt}: persisted tree node {i} is (size {}, hash {:02x?}..) but the scheme prescribes (size {}, hash {:02x?}..)", n.size, &n.hash[..6], exp.size, &exp.hash[..6]),
                    ));
                }
            }
            None => {
                if complete {
                    return Err(Failure::new("tree-node-missing", format!("{ctxt}: tree node {i} of a log of length {} is not persisted (neither tree file nor oplog entries)", rec.length)));
                }
            }
        }
    }
    // header
    let h = &rec.header;
    if h.length > 0 {
        if h.length > reft.len {
            return Err(Failure::new("header-length-beyond-log", format!("{ctxt}: header length {} > blocks {}", h.length, reft.len)));
        }
        let exp = reft.tree_hash_at(h.length);
        if h.root_hash != exp {
            return Err(Failure::new("header-root-hash-mismatch", format!("{ctxt}: header root hash for length {} differs from the reference tree hash", h.length)));
        }
        reft.verify_sig(h.length, h.fork, &h.signature, &key)
            .map_err(|e| Failure::new("header-signature-invalid", format!("{ctxt}: header signature for length {}: {e}", h.length)))?;
    }
    for (len, sig) in &rec.entry_signatures {
        if *len > reft.len {
            return Err(Failure::new("entry-length-beyond-log", format!("{ctxt}: entry upgrade length {len} > blocks {}", reft.len)));
        }
        reft.verify_sig(*len, 0, sig, &key).map_err(|e| Failure::new("entry-signature-invalid", format!("{ctxt}: oplog entry signature for length {len}: {e}")))?;
    }
    Ok(())
}

/// Every node carried in a proof equals the reference node; the upgrade signature verifies.
pub fn check_proof_nodes(p: &PProof, reft: &RefTree, wlen: u64, ctxt: &str) -> Check {
    let chk = |list: &str, nodes: &[crate::mutate::PNode]| -> Check {
        for n in nodes {
            let Some(exp) = reft.get(n.index) else {
                return Err(Failure::new("proof-node-unknown", format!("{ctxt}: proof {list} node {} is not a full node of the log", n.index)));
            };
            if n.size != exp.size || n.hash[..] != exp.hash[..] {
                return Err(Failure::new("proof-node-mismatch", format!("{ctxt}: proof {list} node {} is (size {}, {:02x?}..), reference (size {}, {:02x?}..)", n.index, n.size, &n.hash[..6], exp.size, &exp.hash[..6])));
            }
        }
        Ok(())
    };
    if let Some(b) = &p.block {
        chk("block", &b.nodes)?;
    }
    if let Some(b) = &p.hash {
        chk("hash", &b.nodes)?;
    }
    if let Some(b) = &p.seek {
        chk("seek", &b.nodes)?;
    }
    if let Some(u) = &p.upgrade {
        chk("upgrade", &u.nodes)?;
        chk("additional", &u.additional_nodes)?;
        reft.verify_sig(wlen, p.fork, &u.signature, &pubkey())
            .map_err(|e| Failure::new("proof-signature-invalid", format!("{ctxt}: upgrade signature served for writer length {wlen}: {e}")))?;
    }
    Ok(())
}

pub fn run_tops(ops: &[TOp], local: &mut Local) -> Check {
    let disk = Disk::new();
    let mut sim = WSim::create(&disk, ObsPolicy::Windowed)?;
    let mut reft = RefTree::new();
    let mut batches = 0;
    let mut reopens = 0;
    for (k, top) in ops.iter().enumerate() {
        let op = match top {
            TOp::Append(b) => Op::Append(*b),
            TOp::Batch(b) => Op::Batch(b.clone()),
            TOp::Reopen => Op::Reopen,
            TOp::Clear { a, n } => Op::Clear { a: *a, n: *n },
        };
        match top {
            TOp::Append(b) => reft.append(&b.bytes()),
            TOp::Batch(bs) => {
                if bs.len() > 1 {
                    batches += 1;
                }
                bs.iter().for_each(|b| reft.append(&b.bytes()))
            }
            TOp::Reopen => reopens += 1,
            _ => {}
        }
        sim.apply(&op)?;
        check_persisted(&disk, &reft, true, &format!("after op {k} {top:?}"))?;
    }
    let n = reft.len;
    // proofs
    if n > 0 {
        let mut reqs: Vec<(Option<RequestBlock>, Option<RequestBlock>, Option<RequestSeek>, Option<RequestUpgrade>)> = vec![];
        let mut x = hash_of(&ops);
        let mut next = |m: u64| {
            x = mix(x, 0x51);
            x % m.max(1)
        };
        for _ in 0..6 {
            let i = next(n);
            let start = next(n);
            let l = 1 + next(n - start);
            reqs.push((Some(RequestBlock { index: i, nodes: next(4) }), None, None, None));
            reqs.push((None, None, None, Some(RequestUpgrade { start, length: l })));
            if i >= start && i < start + l {
                reqs.push((Some(RequestBlock { index: i, nodes: 0 }), None, None, Some(RequestUpgrade { start, length: l })));
            }
            let cands = RefTree::full_indices(n);
            let j = cands[next(cands.len() as u64) as usize];
            reqs.push((None, Some(RequestBlock { index: j, nodes: next(3) }), None, None));
            reqs.push((None, None, Some(RequestSeek { bytes: next(sim.model.byte_length + 1) }), None));
            reqs.push((None, None, Some(RequestSeek { bytes: next(sim.model.byte_length + 1) }), Some(RequestUpgrade { start: 0, length: n })));
        }
        for (b, h, s, u) in reqs {
            let d = format!("{b:?} {h:?} {s:?} {u:?}");
            let core = sim.core();
            let r = catch(|| block_on(core.create_proof(b, h, s, u))).map_err(|p| panic_failure(&format!("create_proof({d})"), &p))?;
            if let Ok(Some(p)) = r {
                local.class("proofs_compared");
                check_proof_nodes(&PProof::from_proof(&p), &reft, n, &format!("create_proof({d})"))?;
            } else {
                local.class("proof_requests_without_proof");
            }
        }
    }
    local.class("block_sequences");
    let multi_root = n.count_ones() >= 2;
    if multi_root {
        local.class("length_with_two_or_more_roots");
    }
    if multi_root && (reopens > 0 || batches > 0) {
        let sizes: Vec<u64> = sim.model.sizes.clone();
        local.nontrivial(&(sizes, ops.len(), reopens, batches));
    }
    Ok(())
}

/// Replica filled by a C03 session: every stored node equals the reference.
pub fn run_replica(ops: &[SOp], local: &mut Local) -> Check {
    let mut sim = RSim::new(Disk::new())?;
    let mut scratch = Local::default();
    for op in ops {
        sim.apply(op, &mut scratch)?;
    }
    let reft = RefTree::from_blocks(&sim.wblocks);
    check_persisted(&sim.rdisk, &reft, false, "replica at the end of the session")?;
    check_persisted(&sim.wdisk, &reft, true, "writer at the end of the session")?;
    local.class("replica_sessions");
    if sim.accepted > 0 && sim.rm.length.count_ones() >= 2 {
        local.nontrivial(&ops);
    }
    Ok(())
}

/// Crash states: after recovery from every journal prefix of a writer history the persisted
/// nodes (tree file + entries of the recovered store) must still be complete for the recovered
/// length and equal to the reference, and header/entry signatures must verify.
pub fn run_crash_states(ops: &[Op], local: &mut Local) -> Check {
    use crate::backend::{apply, empty_files};
    let rec = crate::crash::record(ops)?;
    // reference over every block the history ever appended
    let mut reft = RefTree::new();
    {
        let mut m = crate::model::ListModel::new();
        for op in ops {
            let before = m.len();
            m = model_after(&m, op);
            for i in before..m.len() {
                reft.append(m.blocks[i as usize].as_ref().unwrap());
            }
        }
    }
    local.evals = local.evals.saturating_sub(1);
    let mut files = empty_files();
    for op in &rec.journal[..rec.k0] {
        apply(&mut files, op);
    }
    for k in rec.k0..=rec.journal.len() {
        if k > rec.k0 {
            apply(&mut files, &rec.journal[k - 1]);
        }
        let disk = Disk::from_files(files.clone());
        // the recovered instance must open (C02 reports it otherwise; here it is a precondition)
        match hc::open(&disk) {
            Ok(Ok(_)) => {}
            _ => {
                local.class("crash_states_not_openable(skipped here, C02's business)");
                continue;
            }
        }
        local.evals += 1;
        local.class("crash_states_compared");
        check_persisted(&disk, &reft, true, &format!("after a crash at journal prefix {k}/{} and reopening", rec.journal.len()))?;
        if k > rec.k0 && k < rec.journal.len() {
            local.nontrivial(&(hash_of(&ops), k));
        }
    }
    Ok(())
}

/// "Virtual" logs: the reference builds and signs a tree from leaf sizes and leaf hashes alone
/// (sizes up to 2^40 per leaf, so byte lengths beyond 2^32 occur without any real data) and
/// serves proofs; the crate, as a replica, must accept them, persist exactly those nodes and
/// serve them back unchanged (sizes included), also after a reopen.
#[derive(Clone, Debug, PartialEq, Eq, Hash, Serialize, Deserialize)]
pub struct VirtCase {
    pub sizes: Vec<u8>,
    /// tree nodes fetched by hash proofs afterwards (selectors)
    pub fetch: Vec<u16>,
}

pub const VIRT_SIZES: [u64; 10] = [0, 1, 2, 65535, 65536, (1 << 32) - 1, 1 << 32, (1 << 32) + 4711, (1 << 40) + 3, 300];

pub fn virt_strategy() -> impl Strategy<Value = VirtCase> {
    (prop::collection::vec(0u8..VIRT_SIZES.len() as u8, 1..20), prop::collection::vec(any::<u16>(), 0..8)).prop_map(|(sizes, fetch)| VirtCase { sizes, fetch })
}

fn rnode_to_node(n: &crate::reftree::RNode) -> hypercore::Node {
    hypercore::Node::new(n.index, n.hash.to_vec(), n.size)
}

pub fn run_virtual(c: &VirtCase, local: &mut Local) -> Check {
    use crate::reftree as ft;
    use ed25519_dalek::Signer;
    let n = c.sizes.len() as u64;
    let mut reft = RefTree::new();
    for (i, s) in c.sizes.iter().enumerate() {
        let size = VIRT_SIZES[*s as usize % VIRT_SIZES.len()];
        let hash = ft::leaf_hash(&[(i as u8) ^ 0x5a, *s, 7, (i >> 8) as u8]); // any 32 non-zero-looking bytes
        reft.append_leaf(size, hash);
    }
    let total: u64 = reft.byte_length_at(n);
    let sk = hypercore::SigningKey::from_bytes(&hc::TEST_SECRET_KEY_BYTES);
    let sig = sk.sign(&reft.signable_at(n, 0)).to_bytes().to_vec();
    let disk = Disk::new();
    let mut r = match hc::create(&disk, hc::public_only(&hc::test_keypair())) {
        Ok(Ok(c)) => c,
        Ok(Err(e)) => return Err(Failure::new("create-error", e.to_string())),
        Err(p) => return Err(panic_failure("create replica", &p)),
    };
    let up = hypercore::Proof {
        fork: 0,
        block: None,
        hash: None,
        seek: None,
        upgrade: Some(hypercore::DataUpgrade { start: 0, length: n, nodes: reft.roots_at(n).iter().map(rnode_to_node).collect(), additional_nodes: vec![], signature: sig.clone() }),
    };
    let what = format!("reference-signed upgrade to a virtual log of {n} leaves, {total} bytes");
    match catch(|| block_on(r.verify_and_apply_proof(&up))).map_err(|p| panic_failure(&what, &p))? {
        Ok(true) => {}
        other => return Err(Failure::new("reference-proof-refused", format!("{what} was not accepted: {other:?}"))),
    }
    // hash proofs for some inner nodes / leaves
    let roots = ft::full_roots(n);
    let all = RefTree::full_indices(n);
    for f in &c.fetch {
        let j = all[crate::model::sel(*f, all.len() as u64) as usize];
        if roots.contains(&j) {
            continue;
        }
        let mut nodes = vec![rnode_to_node(reft.get(j).unwrap())];
        let mut cur = j;
        loop {
            let p = ft::parent(cur);
            nodes.push(rnode_to_node(reft.get(ft::sibling(cur)).unwrap()));
            if roots.contains(&p) {
                break;
            }
            cur = p;
        }
        let hp = hypercore::Proof { fork: 0, block: None, hash: Some(hypercore::DataHash { index: j, nodes }), seek: None, upgrade: None };
        let what = format!("reference hash proof for node {j} of the virtual log");
        match catch(|| block_on(r.verify_and_apply_proof(&hp))).map_err(|p| panic_failure(&what, &p))? {
            Ok(true) => {}
            other => return Err(Failure::new("reference-proof-refused", format!("{what} was not accepted: {other:?}"))),
        }
        local.class("reference_hash_proofs_accepted");
    }
    for round in 0..2 {
        let ctxt = format!("virtual log of {n} leaves / {total} bytes, {}", if round == 0 { "live" } else { "after reopen" });
        let info = r.info();
        if info.length != n || info.byte_length != total {
            return Err(Failure::new("virtual-info-mismatch", format!("{ctxt}: info reports ({}, {}) but the signed tree has ({n}, {total})", info.length, info.byte_length)));
        }
        check_persisted(&disk, &reft, false, &ctxt)?;
        // served back: upgrade proof and a hash proof
        let served = catch(|| block_on(r.create_proof(None, None, None, Some(RequestUpgrade { start: 0, length: n })))).map_err(|p| panic_failure(&ctxt, &p))?;
        match served {
            Ok(Some(p)) => check_proof_nodes(&PProof::from_proof(&p), &reft, n, &ctxt)?,
            other => return Err(Failure::new("virtual-upgrade-not-served", format!("{ctxt}: the replica does not serve the upgrade it holds: {other:?}"))),
        }
        if round == 0 {
            drop(r);
            r = match hc::open(&disk) {
                Ok(Ok(c)) => c,
                Ok(Err(e)) => return Err(Failure::new(format!("reopen-error:{}", err_kind(&e)), format!("{ctxt}: reopen failed: {e}"))),
                Err(p) => return Err(panic_failure("reopen", &p)),
            };
        }
    }
    local.class("virtual_logs");
    if total >= 1 << 32 {
        local.class("virtual_logs_beyond_4GiB");
        local.nontrivial(c);
    }
    Ok(())
}

#[derive(Clone, Debug, Serialize, Deserialize)]
pub struct LenCase {
    pub len: u64,
    pub pattern: u8,
    /// 0: single appends, 1: batches of 3, 2: one batch, 3: appends with a reopen after every 5th
    pub build: u8,
}

fn pattern_blk(pattern: u8, i: u64) -> Blk {
    match pattern {
        0 => Blk { len: 0, fill: 0 },
        1 => Blk { len: 1, fill: i as u8 },
        _ => Blk { len: (i % 7) as u32, fill: (i as u8).wrapping_mul(3) },
    }
}

pub fn run_len(c: &LenCase, local: &mut Local) -> Check {
    let blocks: Vec<Blk> = (0..c.len).map(|i| pattern_blk(c.pattern, i)).collect();
    let mut ops = vec![];
    match c.build {
        0 => blocks.iter().for_each(|b| ops.push(TOp::Append(*b))),
        1 => blocks.chunks(3).for_each(|ch| ops.push(TOp::Batch(ch.to_vec()))),
        2 => ops.push(TOp::Batch(blocks.clone())),
        _ => blocks.iter().enumerate().for_each(|(i, b)| {
            ops.push(TOp::Append(*b));
            if i % 5 == 4 {
                ops.push(TOp::Reopen)
            }
        }),
    }
    run_tops(&ops, local)
}

pub fn run(ctx: &Ctx) {
    ctx.set_rule(
        "cases = block sequences built by mixes of single appends, batches of 0..40 blocks, clears and reopen steps. At every \
         operation boundary the four raw files are parsed by the independent layout reader and every full tree node (tree file \
         overlaid by the nodes of unflushed oplog entries) is compared with an independently computed reference tree (own flat-tree \
         arithmetic, BLAKE2b-256 leaf/parent/tree hashes, signable with derived namespace, Ed25519 verify_strict); header root hash \
         and signature and every entry signature are verified; at the end every node inside proofs for a spread of \
         block/hash/seek/upgrade requests (partial upgrades included) is compared and the served signature verified. Stage 1: all \
         lengths 0..70 x 3 size patterns x 4 build modes. Stage 2: seeded-random sequences (up to ~600 blocks, sizes 0..4096). \
         Stage 3: replicas filled by C03 sessions (every stored node must equal the reference). Stage 4: every \
         crash state (journal prefix) of random writer histories, after reopening: persisted nodes complete for the recovered length \
         and equal to the reference, signatures valid. Stage 5: 'virtual' logs - the reference builds and signs a tree \
         from leaf sizes/hashes alone (leaf sizes up to 2^40, byte lengths beyond 2^32) and serves upgrade and hash proofs; the crate as \
         replica must accept them, persist and serve back exactly those nodes, also after reopen. Non-trivial = length with >= 2 roots \
         and >= 1 reopen or batch; distinct = block size vectors.",
    );
    ctx.assume("BLAKE2b, Ed25519 and CRC32 primitives come from the same upstream crates as /repo uses (trusted base); the scheme is re-implemented independently");
    let mut cases = vec![];
    for len in 0..=70u64 {
        for pattern in 0..3u8 {
            for build in 0..4u8 {
                cases.push(LenCase { len, pattern, build });
            }
        }
    }
    let n = cases.len() as u64;
    indexed_stage(ctx, "all-lengths", n, |i| cases[i as usize].clone(), run_len);
    ctx.extra("exhaustive_stage", json!({"lengths": "0..=70", "size_patterns": 3, "build_modes": 4, "cases": n, "exhaustive": true}));
    random_stage(ctx, "random", ctx.tier.pick(6_000, 100_000), tops_strategy, |ops: &Vec<TOp>, local| run_tops(ops, local));
    random_stage(ctx, "replicas", ctx.tier.pick(4_500, 80_000), || session_strategy(30), |ops: &Vec<SOp>, local| run_replica(ops, local));
    random_stage(ctx, "crash-states", ctx.tier.pick(2_400, 30_000), || crate::props::c02::crash_history_strategy(14), |ops: &Vec<Op>, local| run_crash_states(ops, local));
    random_stage(ctx, "virtual-sizes", ctx.tier.pick(9_000, 60_000), virt_strategy, |c: &VirtCase, local| run_virtual(c, local));
    // a few large logs
    // (131 071 = 2^17 - 1 blocks have 17 roots, 262 143 have 18: more roots than any shorter log)
    let lens: Vec<u64> = ctx.tier.pick(vec![33_000, 33_517, 131_071], vec![33_000, 33_517, 34_034, 34_551, 131_071, 196_607, 245_759, 262_143]);
    ctx.extra("large_stage_lengths", json!(lens));
    indexed_stage(
        ctx,
        "large",
        lens.len() as u64,
        |i| -> Vec<TOp> { vec![TOp::Batch((0..lens[i as usize]).map(|k| Blk { len: (k % 3) as u32, fill: k as u8 }).collect()), TOp::Reopen, TOp::Append(Blk { len: 5, fill: 9 })] },
        |ops: &Vec<TOp>, local: &mut Local| run_tops(ops, local),
    );
}

pub fn replay(case: &Value) -> Check {
    let mut l = Local::default();
    if case.get("len").is_some() && case.get("pattern").is_some() {
        let c: LenCase = serde_json::from_value(case.clone()).map_err(|e| Failure::new("bad-replay", e.to_string()))?;
        return run_len(&c, &mut l);
    }
    if let Ok(ops) = serde_json::from_value::<Vec<TOp>>(case.clone()) {
        return run_tops(&ops, &mut l);
    }
    if case.get("sizes").is_some() {
        let c: VirtCase = serde_json::from_value(case.clone()).map_err(|e| Failure::new("bad-replay", e.to_string()))?;
        return run_virtual(&c, &mut l);
    }
    if let Ok(ops) = serde_json::from_value::<Vec<Op>>(case.clone()) {
        return run_crash_states(&ops, &mut l);
    }
    let ops: Vec<SOp> = serde_json::from_value(case.clone()).map_err(|e| Failure::new("bad-replay", e.to_string()))?;
    run_replica(&ops, &mut l)
}
