//! C10 — a storage error surfaces as an error and is recoverable by reopening.

use crate::backend::Disk;
use crate::crash::{obs_vs_model, writer_suffix};
use crate::hc;
use crate::model::{sel, ListModel};
use crate::ops::*;
use crate::props::c01::{alphabet_op, seq_at, seq_count, ALPHABET};
use crate::runner::*;
use proptest::prelude::*;
use serde::{Deserialize, Serialize};
use serde_json::{json, Value};

pub fn fault_history_strategy(max: usize) -> impl Strategy<Value = Vec<Op>> {
    let op = prop_oneof![
        6 => small_blk_strategy().prop_map(Op::Append),
        3 => prop::collection::vec(small_blk_strategy(), 0..5).prop_map(Op::Batch),
        4 => clear_strategy(),
        3 => idx_strategy().prop_map(Op::Get),
        3 => Just(Op::Reopen),
        1 => Just(Op::MakeReadOnly),
    ];
    prop::collection::vec(op, 1..max)
}

struct FaultRun {
    /// total storage operations issued (dry run)
    total_ops: u64,
    k0: u64,
    /// storage-operation counter at the start of every call (dry run)
    call_starts: Vec<u64>,
}

/// Short histories around one batch of hundreds of blocks whose oplog entry stays just below (830)
/// or reaches (900, 1000) the oplog's 64 KiB budget, so that the call flushes out of turn.
pub fn over_budget_history_strategy() -> impl Strategy<Value = Vec<Op>> {
    let small = || {
        prop_oneof![
            4 => small_blk_strategy().prop_map(Op::Append),
            2 => prop::collection::vec(small_blk_strategy(), 0..4).prop_map(Op::Batch),
            2 => clear_strategy(),
            1 => Just(Op::Reopen),
        ]
    };
    (prop::collection::vec(small(), 0..4), prop_oneof![Just(830u32), Just(900), Just(1000), Just(1900)], prop::collection::vec(small(), 0..3)).prop_map(|(mut a, big, mut b)| {
        a.push(Op::Big(big));
        a.append(&mut b);
        a
    })
}

/// Run the history with operation `fault_at` failing (or none when None).
fn run_once(ops: &[Op], fault_at: Option<u64>, local: &mut Local) -> Result<FaultRun, Failure> {
    let disk = Disk::journaled();
    let sim = WSim::create(&disk, ObsPolicy::Windowed)?;
    let k0 = disk.ops();
    if let Some(k) = fault_at {
        disk.set_fault(k as i64);
    }
    drive(&disk, sim, ops, fault_at, k0, local)
}

/// Run `ops` on an attached core; the fault (if any) is already armed on the disk.
fn drive(disk: &Disk, mut sim: WSim<Disk>, ops: &[Op], fault_at: Option<u64>, k0: u64, local: &mut Local) -> Result<FaultRun, Failure> {
    let mut unflushed = 0u32;
    let mut reopen_with_unflushed = false;
    let mut call_starts = vec![];
    for (ci, op) in ops.iter().enumerate() {
        call_starts.push(disk.ops());
        let before: ListModel = sim.model.clone();
        let jb = disk.journal_len();
        let muts_before = disk.muts();
        if matches!(op, Op::Reopen) {
            reopen_with_unflushed = unflushed > 0;
        }
        let out = sim.exec(op).map_err(|f| Failure::new(f.kind, format!("fault at storage op {fault_at:?}: call {ci}: {}", f.detail)))?;
        if disk.fault_hit() {
            let kind = disk.0.fault_kind.lock().unwrap().clone().unwrap_or_default();
            let what = format!("injected I/O error on storage operation {} ({kind}) during call {ci} {op:?}", fault_at.unwrap());
            // (1) the call must return an error
            if !matches!(out, Out::Err(_)) {
                return Err(Failure::new(
                    format!("fault-swallowed:{}", kind.split(' ').next().unwrap_or("")),
                    format!("{what}: the call returned {out:?} instead of an error"),
                ));
            }
            let partial = disk.muts() - muts_before > 1 || (disk.muts() - muts_before == 1 && !kind.starts_with("write") && !kind.starts_with("del") && !kind.starts_with("truncate"));
            if partial && op.is_mutating() {
                local.nontrivial(&(ops, fault_at));
                local.class("fault_after_first_write_of_call");
            }
            if matches!(op, Op::Reopen) && reopen_with_unflushed {
                local.nontrivial(&(ops, fault_at));
                local.class("fault_on_read_during_reopen_with_unflushed_entries");
            }
            local.class(&format!("fault_on:{kind}"));
            // model after the call, had it succeeded
            let after_sim_model = model_after(&before, op);
            // drop the faulted instance
            sim.core = None;
            // (2) reopen fault-free: before-or-after
            disk.set_fault(-1);
            let mut core = match hc::open(disk) {
                Ok(Ok(c)) => c,
                Ok(Err(e)) => {
                    return Err(Failure::new(format!("reopen-after-fault-error:{}", err_kind(&e)), format!("{what}: reopening the storage afterwards failed: {e}")))
                }
                Err(p) => return Err(panic_failure(&format!("{what}: reopening afterwards"), &p)),
            };
            let upto = before.len().max(after_sim_model.len()) + 3;
            let differ = crate::crash::differing_indices(&before, &after_sim_model);
            let obs = hc::observe_with(&mut core, upto, false, &differ).map_err(|p| panic_failure(&format!("{what}: observing after reopen"), &p))?;
            let d1 = obs_vs_model(&obs, &before, false);
            let d2 = obs_vs_model(&obs, &after_sim_model, false);
            let model = match (d1, d2) {
                (None, _) => before,
                (_, None) => after_sim_model,
                (Some(a), Some(b)) => {
                    return Err(Failure::new(
                        "after-fault-neither-before-nor-after",
                        format!("{what}: after reopening, the state is neither the one before the call ({a}) nor the one after it ({b})"),
                    ))
                }
            };
            // (3) still usable
            let mut s2 = WSim::attach(disk, core, model, ObsPolicy::Windowed);
            for sop in writer_suffix() {
                s2.apply(&sop).map_err(|f| Failure::new(format!("after-fault:{}", f.kind), format!("{what}: usability suffix: {}", f.detail)))?;
            }
            let _ = jb;
            return Ok(FaultRun { total_ops: disk.ops(), k0, call_starts: vec![] });
        }
        // no fault in this call: normal model check (no extra observation: op numbering must match the dry run)
        sim.check_and_advance(op, &out).map_err(|f| Failure::new(f.kind, format!("fault at storage op {fault_at:?}: call {ci}: {}", f.detail)))?;
        sim.step += 1;
        if disk.journal_len() > jb {
            let j = disk.0.journal.lock().unwrap();
            if j[jb..].iter().any(crate::crash::is_header_write) {
                unflushed = 0;
            } else {
                unflushed += 1;
            }
        }
    }
    Ok(FaultRun { total_ops: disk.ops(), k0, call_starts })
}


/// A history, cut short by a crash, then faults at every storage operation of: opening the crashed
/// storage, and the calls in `follow`.
#[derive(Clone, Debug, Serialize, Deserialize)]
pub struct AfterCrashCase {
    pub ops: Vec<Op>,
    /// crash after journal prefix k0 + sel(cut, journal length - k0)
    pub cut: u16,
    /// 0: clean cut; otherwise the next write is torn after sel(torn, its length) bytes
    pub torn: u16,
    pub follow: Vec<Op>,
}

pub fn after_crash_strategy() -> impl Strategy<Value = AfterCrashCase> {
    let follow = prop_oneof![
        Just(vec![]),
        small_blk_strategy().prop_map(|b| vec![Op::Append(b)]),
        (small_blk_strategy(), clear_strategy()).prop_map(|(b, c)| vec![Op::Append(b), c, Op::Reopen]),
    ];
    (fault_history_strategy(12), any::<u16>(), prop_oneof![3 => Just(0u16), 2 => any::<u16>()], follow)
        .prop_map(|(ops, cut, torn, follow)| AfterCrashCase { ops, cut, torn, follow })
}

/// Open crashed storage with a fault armed and continue with `follow`.
fn run_after_crash_once(files: &crate::backend::Files, model: &ListModel, follow: &[Op], fault_at: Option<u64>, local: &mut Local) -> Result<FaultRun, Failure> {
    let disk = Disk::from_files(files.clone());
    disk.0.journaling.store(true, std::sync::atomic::Ordering::SeqCst);
    let k0 = disk.ops();
    if let Some(k) = fault_at {
        disk.set_fault(k as i64);
    }
    let opened = hc::open(&disk);
    if disk.fault_hit() {
        let kind = disk.0.fault_kind.lock().unwrap().clone().unwrap_or_default();
        let what = format!("injected I/O error on storage operation {} ({kind}) while opening the storage after a crash", fault_at.unwrap());
        match opened {
            Ok(Err(_)) => {}
            Ok(Ok(_)) => return Err(Failure::new(format!("fault-swallowed:{}", kind.split(' ').next().unwrap_or("")), format!("{what}: the open succeeded instead of returning an error"))),
            Err(p) => return Err(panic_failure(&what, &p)),
        }
        local.class(&format!("fault_on_open_after_crash:{}", kind.split(' ').next().unwrap_or("")));
        if kind.starts_with("write") || kind.starts_with("truncate") || kind.starts_with("del") {
            local.nontrivial(&(fault_at, follow.len(), files.iter().map(|f| f.len()).collect::<Vec<_>>()));
            local.class("fault_on_a_write_made_by_the_recovering_open");
        }
        disk.set_fault(-1);
        let mut core = match hc::open(&disk) {
            Ok(Ok(c)) => c,
            Ok(Err(e)) => return Err(Failure::new(format!("reopen-after-fault-error:{}", err_kind(&e)), format!("{what}: reopening the storage afterwards failed: {e}"))),
            Err(p) => return Err(panic_failure(&format!("{what}: reopening afterwards"), &p)),
        };
        let obs = hc::observe(&mut core, model.len() + 3, false).map_err(|p| panic_failure(&format!("{what}: observing after reopen"), &p))?;
        if let Some(d) = obs_vs_model(&obs, model, false) {
            return Err(Failure::new("after-fault-neither-before-nor-after", format!("{what}: after reopening, the state is not the recovered one: {d}")));
        }
        let mut s2 = WSim::attach(&disk, core, model.clone(), ObsPolicy::Windowed);
        for sop in writer_suffix() {
            s2.apply(&sop).map_err(|f| Failure::new(format!("after-fault:{}", f.kind), format!("{what}: usability suffix: {}", f.detail)))?;
        }
        return Ok(FaultRun { total_ops: disk.ops(), k0, call_starts: vec![] });
    }
    let core = match opened {
        Ok(Ok(c)) => c,
        Ok(Err(e)) => return Err(Failure::new(format!("recovery-open-error:{}", err_kind(&e)), format!("opening the storage after the crash failed: {e}"))),
        Err(p) => return Err(panic_failure("opening the storage after the crash", &p)),
    };
    let sim = WSim::attach(&disk, core, model.clone(), ObsPolicy::Windowed);
    drive(&disk, sim, follow, fault_at, k0, local)
}

pub fn test_after_crash(c: &AfterCrashCase, local: &mut Local) -> Check {
    let rec = crate::crash::record(&c.ops)?;
    local.evals = local.evals.saturating_sub(1);
    let n = rec.journal.len();
    if n <= rec.k0 {
        local.class("after_crash:history_without_writes");
        return Ok(());
    }
    let k = rec.k0 + sel(c.cut, (n - rec.k0) as u64) as usize;
    let mut files = crate::backend::empty_files();
    for jop in &rec.journal[..k] {
        crate::backend::apply(&mut files, jop);
    }
    if c.torn != 0 {
        if let crate::backend::JOp::Write { data, .. } = &rec.journal[k] {
            if data.len() > 1 {
                let cut = 1 + sel(c.torn, data.len() as u64 - 1) as usize;
                crate::backend::apply_torn(&mut files, &rec.journal[k], cut);
                local.class("after_crash:torn_write");
            }
        }
    }
    // which state the crash left (C02/C07 decide whether that is allowed; here it is only the starting point)
    let cands: Vec<&ListModel> = match rec.calls.iter().find(|r| r.b <= k && k < r.e) {
        Some(r) => vec![&rec.models[r.before], &rec.models[r.after]],
        None => return Ok(()),
    };
    let probe = Disk::from_files(files.clone());
    let mut core = match hc::open(&probe) {
        Ok(Ok(c)) => c,
        _ => {
            local.class("after_crash:unrecoverable_start_skipped");
            return Ok(());
        }
    };
    let upto = cands.iter().map(|m| m.len()).max().unwrap_or(0) + 3;
    let differ = crate::crash::differing_indices(cands[0], cands[1]);
    let obs = hc::observe_with(&mut core, upto, false, &differ).map_err(|p| panic_failure("observing the crashed storage", &p))?;
    let Some(model) = cands.iter().find(|m| obs_vs_model(&obs, m, false).is_none()) else {
        local.class("after_crash:unexplained_start_skipped");
        return Ok(());
    };
    drop(core);
    let model: ListModel = (*model).clone();
    let oplog_before = files[crate::backend::OPLOG].len();
    if probe.file_len(crate::backend::OPLOG) != oplog_before {
        local.class("after_crash:open_rewrites_the_oplog");
    }
    let dry = run_after_crash_once(&files, &model, &c.follow, None, local)?;
    local.class("after_crash:histories");
    for kf in dry.k0..dry.total_ops {
        local.evals += 1;
        local.class("after_crash:fault_runs");
        run_after_crash_once(&files, &model, &c.follow, Some(kf), local)?;
    }
    Ok(())
}

/// Re-creating a core over existing storage (`overwrite = true`) with a fault at every storage
/// operation of that call: the call fails; repeating it without a fault gives a fresh empty core.
#[derive(Clone, Debug, Serialize, Deserialize)]
pub struct OverwriteCase {
    pub ops: Vec<Op>,
    pub follow: Vec<Op>,
}

pub fn overwrite_strategy() -> impl Strategy<Value = OverwriteCase> {
    (fault_history_strategy(10), prop::collection::vec(prop_oneof![small_blk_strategy().prop_map(Op::Append), clear_strategy(), Just(Op::Reopen)], 1..4))
        .prop_map(|(ops, follow)| OverwriteCase { ops, follow })
}

pub fn test_overwrite(c: &OverwriteCase, local: &mut Local) -> Check {
    let base = Disk::new();
    let mut sim = WSim::create(&base, ObsPolicy::Windowed)?;
    for op in &c.ops {
        sim.apply(op)?;
    }
    let old_len = sim.model.len();
    drop(sim);
    let files = base.snapshot();
    local.evals = local.evals.saturating_sub(1);
    let fresh_check = |disk: &Disk, core: hypercore::Hypercore, what: &str| -> Check {
        let mut core = core;
        let empty = ListModel::new();
        let obs = hc::observe(&mut core, old_len + 3, false).map_err(|p| panic_failure(&format!("{what}: observing the re-created core"), &p))?;
        if let Some(d) = obs_vs_model(&obs, &empty, true) {
            return Err(Failure::new("overwrite-not-fresh", format!("{what}: the re-created core is not an empty core: {d}")));
        }
        let mut s2 = WSim::attach(disk, core, empty, ObsPolicy::Full);
        s2.check_contig = true;
        for op in &c.follow {
            s2.apply(op).map_err(|f| Failure::new(format!("after-overwrite:{}", f.kind), format!("{what}: {}", f.detail)))?;
        }
        s2.apply(&Op::Reopen).map_err(|f| Failure::new(format!("after-overwrite:{}", f.kind), format!("{what}: {}", f.detail)))?;
        Ok(())
    };
    // dry run
    let d0 = Disk::from_files(files.clone());
    let core = match hc::create_overwrite(&d0, hc::test_keypair()) {
        Ok(Ok(c)) => c,
        Ok(Err(e)) => return Err(Failure::new(format!("overwrite-error:{}", err_kind(&e)), format!("re-creating over existing storage failed: {e}"))),
        Err(p) => return Err(panic_failure("re-creating over existing storage", &p)),
    };
    let total = d0.ops();
    fresh_check(&d0, core, "overwrite without faults")?;
    local.class("overwrite:histories");
    for k in 0..total {
        local.evals += 1;
        let d = Disk::from_files(files.clone());
        d.set_fault(k as i64);
        let r = hc::create_overwrite(&d, hc::test_keypair());
        if !d.fault_hit() {
            continue;
        }
        let kind = d.0.fault_kind.lock().unwrap().clone().unwrap_or_default();
        let what = format!("injected I/O error on storage operation {k} ({kind}) while re-creating a core over storage holding {old_len} blocks");
        match r {
            Ok(Err(_)) => {}
            Ok(Ok(_)) => return Err(Failure::new(format!("fault-swallowed:{}", kind.split(' ').next().unwrap_or("")), format!("{what}: the call succeeded instead of returning an error"))),
            Err(p) => return Err(panic_failure(&what, &p)),
        }
        local.class(&format!("overwrite:fault_on:{}", kind.split(' ').next().unwrap_or("")));
        if old_len > 0 && d.muts() > 0 {
            local.nontrivial(&(&c.ops, k));
            local.class("overwrite:fault_after_the_wipe_started");
        }
        d.set_fault(-1);
        let core = match hc::create_overwrite(&d, hc::test_keypair()) {
            Ok(Ok(c)) => c,
            Ok(Err(e)) => return Err(Failure::new(format!("overwrite-retry-error:{}", err_kind(&e)), format!("{what}: repeating the call without a fault failed: {e}"))),
            Err(p) => return Err(panic_failure(&format!("{what}: repeating the call"), &p)),
        };
        fresh_check(&d, core, &format!("{what}, then the call repeated without a fault"))?;
    }
    Ok(())
}

/// The creating `build()` itself: each of its storage operations fails in turn - without any effect,
/// or (a write) after only a byte prefix of it reached the store, as a device that runs full does.
/// The state before that call is "no core", the state after it "an empty core with this key":
/// repeating the build with the same key pair must succeed either way and give an empty, usable core.
/// `case` = (public key only?, index of the failing mutating operation, torn prefix or 0).
pub fn test_create_fault(case: &(bool, u64, u64), local: &mut Local) -> Check {
    let (public_only, k, cut) = *case;
    let kp = || {
        let mut kp = hc::test_keypair();
        if public_only {
            kp.secret = None;
        }
        kp
    };
    let dry = Disk::journaled();
    match hc::create(&dry, kp()) {
        Ok(Ok(_)) => {}
        Ok(Err(e)) => return Err(Failure::new("harness-bug:create-failed", format!("fault-free create failed: {e}"))),
        Err(p) => return Err(panic_failure("fault-free create", &p)),
    }
    let journal = dry.journal();
    let k = k as usize;
    if k >= journal.len() {
        return Ok(());
    }
    let mut files = crate::backend::empty_files();
    for jop in &journal[..k] {
        crate::backend::apply(&mut files, jop);
    }
    let mut what = format!("creating build() whose storage operation {k} ({}) failed without effect", journal[k].brief());
    if cut > 0 {
        let crate::backend::JOp::Write { data, .. } = &journal[k] else { return Ok(()) };
        if cut as usize >= data.len() {
            return Ok(());
        }
        crate::backend::apply_torn(&mut files, &journal[k], cut as usize);
        what = format!("creating build() whose storage operation {k} ({}) failed after {cut} of {} bytes", journal[k].brief(), data.len());
        local.class("create_faults:write_failed_after_a_prefix");
    } else {
        local.class("create_faults:operation_failed_without_effect");
    }
    local.nontrivial(case);
    let disk = Disk::from_files(files);
    let core = match hc::create(&disk, kp()) {
        Ok(Ok(c)) => c,
        Ok(Err(e)) => return Err(Failure::new(format!("rebuild-after-failed-create-error:{}", err_kind(&e)), format!("{what}: building again on that storage with the same key pair failed: {e}"))),
        Err(p) => return Err(panic_failure(&format!("{what}: building again"), &p)),
    };
    let mut model = ListModel::new();
    model.writeable = !public_only;
    let mut core = core;
    let obs = hc::observe(&mut core, 3, false).map_err(|p| panic_failure(&format!("{what}: observing the core built again"), &p))?;
    if let Some(d) = obs_vs_model(&obs, &model, true) {
        return Err(Failure::new("after-failed-create-not-empty", format!("{what}: the core built again is not an empty core: {d}")));
    }
    if core.key_pair().public.to_bytes() != hc::test_keypair().public.to_bytes() {
        return Err(Failure::new("after-failed-create-key-differs", format!("{what}: the core built again has another public key")));
    }
    let mut s2 = WSim::attach(&disk, core, model, ObsPolicy::Windowed);
    let suffix = if public_only { vec![Op::Reopen, Op::Info] } else { writer_suffix() };
    for sop in suffix {
        s2.apply(&sop).map_err(|f| Failure::new(format!("after-failed-create:{}", f.kind), format!("{what}: usability suffix: {}", f.detail)))?;
    }
    Ok(())
}

pub fn test_history(ops: &[Op], local: &mut Local) -> Check {
    let dry = run_once(ops, None, local)?;
    local.class("histories");
    local.evals = local.evals.saturating_sub(1);
    // histories with a batch of hundreds of blocks issue thousands of storage operations (one read
    // per tree node): every operation of the big call itself and of the call after it fails in
    // turn, of the others every operation near a call boundary and every 23rd in between
    let heavy = dry.total_ops - dry.k0 > 400;
    let big_call = ops.iter().position(|o| matches!(o, Op::Big(_)));
    for k in dry.k0..dry.total_ops {
        if heavy {
            let ci = dry.call_starts.iter().rposition(|s| *s <= k).unwrap_or(0);
            let start = dry.call_starts[ci];
            let end = dry.call_starts.get(ci + 1).copied().unwrap_or(dry.total_ops);
            let in_big = big_call.map(|b| ci == b || ci == b + 1).unwrap_or(false) && end - start <= 400;
            if !in_big && k - start > 12 && end - k > 12 && k % 23 != 0 {
                local.class("fault_positions_skipped_in_heavy_histories");
                continue;
            }
        }
        local.evals += 1;
        local.class("fault_runs");
        run_once(ops, Some(k), local)?;
    }
    Ok(())
}

pub fn run(ctx: &Ctx) {
    ctx.set_rule(
        "evaluations = (history, k) fault runs: a fault-free dry run counts the N storage operations the history issues after creation \
         (reads and length queries included); then for EVERY k the history is re-run with operation k returning an I/O error once (histories around a batch of 830-1900 blocks, \
         whose log entry reaches the oplog's 64 KiB budget, issue thousands of operations: all operations of the big call and the one after it, \
         those near call boundaries and every 23rd elsewhere). \
         Oracle: the API call issuing operation k returns Err (no Ok, no panic, no hang); the instance is dropped; a fault-free reopen \
         succeeds and shows the model before or after that call with all earlier calls intact; the usability suffix passes. \
         The creating build() is treated the same way (each of its operations fails without effect, or - a write - after a byte prefix \
         reached the store; building again with the same key pair must give an empty usable core). \
         Two further stages: (faults-after-crash) the history is cut short at a generated journal prefix (optionally with the next \
         write torn), and every storage operation of opening that crashed storage and of a few following calls is failed in turn, with the \
         same oracle; (overwrite-under-faults) a core is re-created over the history's storage with overwrite = true, every storage \
         operation of that call failed in turn: the call must fail, and repeating it without a fault must give an empty, usable core. \
         Non-trivial = fault after the call's first mutating storage operation (partially applied call), or on a read during a reopen \
         that finds unflushed entries, or on a write made by an open that recovers crashed storage, or after an overwrite started to wipe \
         a non-empty core; distinct = (history, k).",
    );
    ctx.assume("the failing operation has no effect on the store; all other operations behave normally");
    let l = ctx.tier.pick(3u32, 4u32);
    let n = seq_count(8, l);
    indexed_stage(ctx, "exhaustive", n, |i| seq_at(8, i).into_iter().map(alphabet_op).collect::<Vec<Op>>(), |ops, local| test_history(ops, local));
    ctx.extra("exhaustive_stage", json!({"alphabet": ALPHABET, "max_len": l, "sequences": n, "exhaustive": true}));
    random_stage(ctx, "random", ctx.tier.pick(3_000, 50_000), || fault_history_strategy(20), |ops: &Vec<Op>, local| test_history(ops, local));
    // the creating build: (key variant, failing operation, torn prefix) - the journal of a create has a handful of operations
    let mut create_cases: Vec<(bool, u64, u64)> = vec![];
    for public_only in [false, true] {
        for k in 0..12u64 {
            for cut in [0u64, 1, 2, 3, 4, 7, 8, 9, 12, 31, 32, 33, 40, 64, 65, 71, 72, 73, 96, 100, 104, 128, 136, 137, 150, 168, 169, 170, 200, 256, 300, 511, 512, 1000, 2048, 4000, 4095] {
                create_cases.push((public_only, k, cut));
            }
        }
    }
    let ncc = create_cases.len() as u64;
    indexed_stage(ctx, "faults-in-creating-build", ncc, |i| create_cases[i as usize], |c: &(bool, u64, u64), local: &mut Local| test_create_fault(c, local));
    random_stage(ctx, "over-budget-batches", ctx.tier.pick(48, 1_500), over_budget_history_strategy, |ops: &Vec<Op>, local| {
        local.class("histories_with_a_batch_over_the_oplog_budget");
        test_history(ops, local)
    });
    crate::props::repl_crash::run_replica_fault_stage(ctx, ctx.tier.pick(1_000, 16_000));
    random_stage(ctx, "faults-after-crash", ctx.tier.pick(6_000, 40_000), after_crash_strategy, |c: &AfterCrashCase, local| test_after_crash(c, local));
    random_stage(ctx, "overwrite-under-faults", ctx.tier.pick(2_000, 10_000), overwrite_strategy, |c: &OverwriteCase, local| test_overwrite(c, local));
}

pub fn replay(case: &Value) -> Check {
    if case.get("session").is_some() {
        return crate::props::repl_crash::replay_fault(case);
    }
    let mut l = Local::default();
    if case.get("cut").is_some() {
        let c: AfterCrashCase = serde_json::from_value(case.clone()).map_err(|e| Failure::new("bad-replay", e.to_string()))?;
        return test_after_crash(&c, &mut l);
    }
    if case.get("follow").is_some() {
        let c: OverwriteCase = serde_json::from_value(case.clone()).map_err(|e| Failure::new("bad-replay", e.to_string()))?;
        return test_overwrite(&c, &mut l);
    }
    let ops: Vec<Op> = serde_json::from_value(case.clone()).map_err(|e| Failure::new("bad-replay", e.to_string()))?;
    test_history(&ops, &mut l)
}
