//! C10 — a storage error surfaces as an error and is recoverable by reopening.

use crate::backend::Disk;
use crate::crash::{obs_vs_model, writer_suffix};
use crate::hc;
use crate::model::ListModel;
use crate::ops::*;
use crate::props::c01::{alphabet_op, seq_at, seq_count, ALPHABET};
use crate::runner::*;
use proptest::prelude::*;
use serde_json::{json, Value};

pub fn fault_history_strategy(max: usize) -> impl Strategy<Value = Vec<Op>> {
    let op = prop_oneof![
        6 => small_blk_strategy().prop_map(Op::Append),
        3 => prop::collection::vec(small_blk_strategy(), 0..5).prop_map(Op::Batch),
        4 => clear_strategy(),
        3 => idx_strategy().prop_map(Op::Get),
        3 => Just(Op::Reopen),
        1 => Just(Op::MakeReadOnly),
    ];
    prop::collection::vec(op, 1..max)
}

struct FaultRun {
    /// total storage operations issued (dry run)
    total_ops: u64,
    k0: u64,
}

/// Run the history with operation `fault_at` failing (or none when None).
fn run_once(ops: &[Op], fault_at: Option<u64>, local: &mut Local) -> Result<FaultRun, Failure> {
    let disk = Disk::journaled();
    let mut sim = WSim::create(&disk, ObsPolicy::Windowed)?;
    let k0 = disk.ops();
    if let Some(k) = fault_at {
        disk.set_fault(k as i64);
    }
    let mut unflushed = 0u32;
    let mut reopen_with_unflushed = false;
    for (ci, op) in ops.iter().enumerate() {
        let before: ListModel = sim.model.clone();
        let jb = disk.journal_len();
        let muts_before = disk.muts();
        if matches!(op, Op::Reopen) {
            reopen_with_unflushed = unflushed > 0;
        }
        let out = sim.exec(op).map_err(|f| Failure::new(f.kind, format!("fault at storage op {fault_at:?}: call {ci}: {}", f.detail)))?;
        if disk.fault_hit() {
            let kind = disk.0.fault_kind.lock().unwrap().clone().unwrap_or_default();
            let what = format!("injected I/O error on storage operation {} ({kind}) during call {ci} {op:?}", fault_at.unwrap());
            // (1) the call must return an error
            if !matches!(out, Out::Err(_)) {
                return Err(Failure::new(
                    format!("fault-swallowed:{}", kind.split(' ').next().unwrap_or("")),
                    format!("{what}: the call returned {out:?} instead of an error"),
                ));
            }
            let partial = disk.muts() - muts_before > 1 || (disk.muts() - muts_before == 1 && !kind.starts_with("write") && !kind.starts_with("del") && !kind.starts_with("truncate"));
            if partial && op.is_mutating() {
                local.nontrivial(&(ops, fault_at));
                local.class("fault_after_first_write_of_call");
            }
            if matches!(op, Op::Reopen) && reopen_with_unflushed {
                local.nontrivial(&(ops, fault_at));
                local.class("fault_on_read_during_reopen_with_unflushed_entries");
            }
            local.class(&format!("fault_on:{kind}"));
            // model after the call, had it succeeded
            let after_sim_model = model_after(&before, op);
            // drop the faulted instance
            sim.core = None;
            // (2) reopen fault-free: before-or-after
            disk.set_fault(-1);
            let mut core = match hc::open(&disk) {
                Ok(Ok(c)) => c,
                Ok(Err(e)) => {
                    return Err(Failure::new(format!("reopen-after-fault-error:{}", err_kind(&e)), format!("{what}: reopening the storage afterwards failed: {e}")))
                }
                Err(p) => return Err(panic_failure(&format!("{what}: reopening afterwards"), &p)),
            };
            let upto = before.len().max(after_sim_model.len()) + 3;
            let obs = hc::observe(&mut core, upto, false).map_err(|p| panic_failure(&format!("{what}: observing after reopen"), &p))?;
            let d1 = obs_vs_model(&obs, &before, false);
            let d2 = obs_vs_model(&obs, &after_sim_model, false);
            let model = match (d1, d2) {
                (None, _) => before,
                (_, None) => after_sim_model,
                (Some(a), Some(b)) => {
                    return Err(Failure::new(
                        "after-fault-neither-before-nor-after",
                        format!("{what}: after reopening, the state is neither the one before the call ({a}) nor the one after it ({b})"),
                    ))
                }
            };
            // (3) still usable
            let mut s2 = WSim::attach(&disk, core, model, ObsPolicy::Windowed);
            for sop in writer_suffix() {
                s2.apply(&sop).map_err(|f| Failure::new(format!("after-fault:{}", f.kind), format!("{what}: usability suffix: {}", f.detail)))?;
            }
            let _ = jb;
            return Ok(FaultRun { total_ops: disk.ops(), k0 });
        }
        // no fault in this call: normal model check (no extra observation: op numbering must match the dry run)
        sim.check_and_advance(op, &out).map_err(|f| Failure::new(f.kind, format!("fault at storage op {fault_at:?}: call {ci}: {}", f.detail)))?;
        sim.step += 1;
        if disk.journal_len() > jb {
            let j = disk.0.journal.lock().unwrap();
            if j[jb..].iter().any(crate::crash::is_header_write) {
                unflushed = 0;
            } else {
                unflushed += 1;
            }
        }
    }
    Ok(FaultRun { total_ops: disk.ops(), k0 })
}

pub fn test_history(ops: &[Op], local: &mut Local) -> Check {
    let dry = run_once(ops, None, local)?;
    local.class("histories");
    local.evals = local.evals.saturating_sub(1);
    for k in dry.k0..dry.total_ops {
        local.evals += 1;
        local.class("fault_runs");
        run_once(ops, Some(k), local)?;
    }
    Ok(())
}

pub fn run(ctx: &Ctx) {
    ctx.set_rule(
        "evaluations = (history, k) fault runs: a fault-free dry run counts the N storage operations the history issues after creation \
         (reads and length queries included); then for EVERY k the history is re-run with operation k returning an I/O error once. \
         Oracle: the API call issuing operation k returns Err (no Ok, no panic, no hang); the instance is dropped; a fault-free reopen \
         succeeds and shows the model before or after that call with all earlier calls intact; the usability suffix passes. \
         Non-trivial = fault after the call's first mutating storage operation (partially applied call), or on a read during a reopen \
         that finds unflushed entries; distinct = (history, k).",
    );
    ctx.assume("the failing operation has no effect on the store; all other operations behave normally");
    let l = ctx.tier.pick(3u32, 4u32);
    let n = seq_count(8, l);
    indexed_stage(ctx, "exhaustive", n, |i| seq_at(8, i).into_iter().map(alphabet_op).collect::<Vec<Op>>(), |ops, local| test_history(ops, local));
    ctx.extra("exhaustive_stage", json!({"alphabet": ALPHABET, "max_len": l, "sequences": n, "exhaustive": true}));
    random_stage(ctx, "random", ctx.tier.pick(600, 50_000), || fault_history_strategy(20), |ops: &Vec<Op>, local| test_history(ops, local));
    crate::props::repl_crash::run_replica_fault_stage(ctx, ctx.tier.pick(200, 16_000));
}

pub fn replay(case: &Value) -> Check {
    if case.get("session").is_some() {
        return crate::props::repl_crash::replay_fault(case);
    }
    let ops: Vec<Op> = serde_json::from_value(case.clone()).map_err(|e| Failure::new("bad-replay", e.to_string()))?;
    let mut l = Local::default();
    test_history(&ops, &mut l)
}
