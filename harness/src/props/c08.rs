//! C08 — has() and contiguous_length are exact for large, sparse and reopened cores.

use crate::backend::{apply, Disk};
use crate::crash::obs_vs_model;
use crate::hc;
use crate::model::sel;
use crate::ops::*;
use crate::props::c01::{alphabet_op, seq_at, seq_count, ALPHABET};
use crate::repl::*;
use crate::runner::*;
use proptest::prelude::*;
use serde::{Deserialize, Serialize};
use serde_json::{json, Value};

#[derive(Clone, Debug, PartialEq, Eq, Hash, Serialize, Deserialize)]
pub enum C8Op {
    Do(Op),
    /// execute the op but crash after sel(x, #storage ops of the call + 1) of its mutating
    /// storage operations; recover and continue from the recovered state
    CrashIn(Op, u16),
}

fn c8op_strategy() -> impl Strategy<Value = C8Op> {
    let base = prop_oneof![
        3 => (0usize..BIG_SIZES.len()).prop_map(|i| Op::Big(BIG_SIZES[i])),
        4 => small_blk_strategy().prop_map(Op::Append),
        2 => prop::collection::vec(small_blk_strategy(), 0..6).prop_map(Op::Batch),
        4 => clear_strategy(),
        4 => boundary_clear_strategy(),
        5 => page_clear_strategy(),
        3 => Just(Op::Reopen),
    ];
    (base, prop::option::weighted(0.15, any::<u16>())).prop_map(|(op, c)| match c {
        Some(x) if op.is_mutating() => C8Op::CrashIn(op, x),
        _ => C8Op::Do(op),
    })
}

pub fn scaled_strategy() -> impl Strategy<Value = Vec<C8Op>> {
    prop::collection::vec(c8op_strategy(), 2..14)
}

pub fn run_scaled(ops: &[C8Op], local: &mut Local) -> Check {
    let disk = Disk::journaled();
    let mut sim = WSim::create(&disk, ObsPolicy::Scaled)?;
    sim.check_contig = true;
    let mut reopened = 0;
    let mut crashed = 0;
    let mut clear_inside_prefix_then_reopen = false;
    let mut pending_clear_inside = false;
    for (k, c) in ops.iter().enumerate() {
        match c {
            C8Op::Do(op) => {
                if let Op::Clear { a, n } = op {
                    if let Some((s, e)) = sim.clear_range(*a, *n) {
                        if e < sim.model.contiguous() && s > 0 {
                            pending_clear_inside = true;
                        }
                    }
                }
                if matches!(op, Op::Reopen) {
                    reopened += 1;
                    if pending_clear_inside {
                        clear_inside_prefix_then_reopen = true;
                    }
                }
                sim.apply(op)?;
            }
            C8Op::CrashIn(op, x) => {
                let before_files = disk.snapshot();
                let before_model = sim.model.clone();
                let b = disk.journal_len();
                sim.apply(op)?;
                let e = disk.journal_len();
                let after_model = sim.model.clone();
                let cut = b + sel(*x, (e - b) as u64 + 1) as usize;
                let mut files = before_files;
                {
                    let j = disk.0.journal.lock().unwrap();
                    for jop in &j[b..cut] {
                        apply(&mut files, jop);
                    }
                }
                // crash: the instance is gone, the disk holds the prefix
                sim.core = None;
                disk.set_files(files);
                disk.0.journal.lock().unwrap().clear();
                let mut core = match hc::open(&disk) {
                    Ok(Ok(c)) => c,
                    Ok(Err(err)) => {
                        return Err(Failure::new(format!("recovery-open-error:{}", err_kind(&err)), format!("step {k}: crash after {} of {} storage ops of {op:?}: reopen failed: {err}", cut - b, e - b)))
                    }
                    Err(p) => return Err(panic_failure(&format!("step {k}: reopening after a crash inside {op:?}"), &p)),
                };
                // which state did it recover to? decide by a cheap observation, then the full scaled check follows
                let info = core.info();
                let model = if cut == e || (info.length == after_model.len() && after_model.len() != before_model.len()) {
                    after_model.clone()
                } else if cut == b || info.length == before_model.len() && after_model.len() != before_model.len() {
                    before_model.clone()
                } else {
                    // same length (a clear): decide by observing the cleared window
                    let (a0, a1) = sim.last_touched;
                    let upto = (a1 + 3).min(after_model.len() + 3);
                    let obs = hc::observe(&mut core, upto.min(a0 + 600), false).map_err(|p| panic_failure("observing", &p))?;
                    let _ = obs;
                    let has_first = core.has(a0);
                    if has_first == after_model.has(a0) && has_first != before_model.has(a0) {
                        after_model.clone()
                    } else if has_first == before_model.has(a0) && has_first != after_model.has(a0) {
                        before_model.clone()
                    } else {
                        after_model.clone()
                    }
                };
                sim.core = Some(core);
                sim.model = model;
                crashed += 1;
                sim.observe_check(true, "after-crash-recovery").map_err(|f| {
                    Failure::new(f.kind, format!("step {k}: crash after {} of {} storage ops of {op:?}, recovered core: {}", cut - b, e - b, f.detail))
                })?;
                let _ = obs_vs_model;
            }
        }
    }
    sim.observe_check(true, "final")?;
    local.class("scaled_histories");
    let len = sim.model.len();
    if len > 32768 {
        local.class("length_over_32768");
    }
    if len > 65536 {
        local.class("length_over_65536");
    }
    if reopened > 0 {
        local.class("with_reopen");
    }
    if crashed > 0 {
        local.class("with_crash_recovery");
    }
    if (len > 32768 && reopened + crashed > 0) || clear_inside_prefix_then_reopen {
        local.nontrivial(&ops);
    }
    Ok(())
}

fn far_block(len: u32) -> impl Strategy<Value = u64> {
    let l = len as u64;
    prop_oneof![
        Just(0u64), Just(1), Just(8191), Just(8192), Just(8193), Just(32767), Just(32768), Just(32769), Just(65535), Just(65536),
        Just(l - 1), Just(l - 2), 0u64..l,
    ]
    .prop_map(move |i| i.min(l - 1))
}

pub fn big_replica_strategy() -> impl Strategy<Value = Vec<SOp>> {
    prop_oneof![Just(40000u32), Just(32769), Just(65537), Just(70000)].prop_flat_map(|n| {
        let req = (far_block(n), prop_oneof![3 => Just(Upg::Full), 1 => any::<u16>().prop_map(Upg::Partial), 2 => Just(Upg::None)])
            .prop_map(|(i, u)| SOp::R(Req { target: Target::BlockAt(i), upgrade: u, seek: Seek::None }));
        let neighbour = far_block(n).prop_map(|i| {
            // fetch i and i+1 so that a later replica clear has a candidate
            vec![
                SOp::R(Req { target: Target::BlockAt(i), upgrade: Upg::Full, seek: Seek::None }),
                SOp::R(Req { target: Target::BlockAt(i + 1), upgrade: Upg::Full, seek: Seek::None }),
                SOp::R(Req { target: Target::BlockAt(i.saturating_sub(1)), upgrade: Upg::Full, seek: Seek::None }),
            ]
        });
        let step = prop_oneof![
            8 => req.prop_map(|r| vec![r]),
            2 => neighbour,
            2 => Just(vec![SOp::RReopen]),
            2 => any::<u16>().prop_map(|x| vec![SOp::RClear(x)]),
            2 => (prop_oneof![Just(0u16), any::<u16>()], prop_oneof![Just(0xffffu16), any::<u16>(), 0u16..64]).prop_map(|(a, b)| vec![SOp::RClearRange(a, b)]),
            1 => small_blk_strategy().prop_map(|b| vec![SOp::W(Op::Append(b))]),
        ];
        prop::collection::vec(step, 4..16).prop_map(move |v| {
            let mut s = vec![SOp::W(Op::Big(n))];
            for mut x in v {
                s.append(&mut x);
            }
            s
        })
    })
}

/// Replicas of a 2-4 page writer that hold blocks on some pages and none on a page in between, then
/// clear ranges that start at an arbitrary offset inside one page and end inside a later one.
pub fn page_gap_replica_strategy() -> impl Strategy<Value = Vec<SOp>> {
    prop_oneof![Just(65537u32), Just(70000), Just(98305), Just(110000)].prop_flat_map(|n| {
        let pages = (n as u64 + 32767) / 32768;
        let fetch = |i: u64| SOp::R(Req { target: Target::BlockAt(i), upgrade: Upg::Full, seek: Seek::None });
        // blocks near the start of a page, its end, or anywhere in it
        let in_page = move |p: u64| {
            prop_oneof![0u64..6, 0u64..200, 32700u64..32768, 0u64..32768].prop_map(move |o| (p * 32768 + o).min(n as u64 - 1))
        };
        let held = prop::collection::vec((0..pages).prop_flat_map(in_page), 1..7);
        let skip_page = 0..pages; // no block is fetched from this page (unless it is the only one)
        let clear = (0..pages, prop_oneof![1u64..300, 1u64..32768], 0..pages, prop_oneof![0u64..8, 0u64..300, 0u64..32768])
            .prop_map(|(ps, os, pe, oe)| SOp::RClearAt(ps * 32768 + os, pe.max(ps + 1) * 32768 + oe + 1));
        (held, skip_page, prop::collection::vec((clear, any::<bool>(), prop::option::of((0..pages).prop_flat_map(in_page))), 1..4), any::<bool>()).prop_map(
            move |(held, skip, clears, reopen_first)| {
                let mut s = vec![SOp::W(Op::Big(n))];
                for i in held {
                    if i / 32768 != skip {
                        s.push(fetch(i));
                    }
                }
                if reopen_first {
                    s.push(SOp::RReopen);
                }
                for (c, reopen, again) in clears {
                    s.push(c);
                    if reopen {
                        s.push(SOp::RReopen);
                    }
                    if let Some(i) = again {
                        s.push(fetch(i));
                    }
                }
                s
            },
        )
    })
}

pub fn small_replica_strategy() -> impl Strategy<Value = Vec<SOp>> {
    let step = prop_oneof![
        10 => sop_strategy(),
        3 => any::<u16>().prop_map(SOp::RClear),
        2 => (any::<u16>(), prop_oneof![0u16..2000, any::<u16>()]).prop_map(|(a, b)| SOp::RClearRange(a, b)),
    ];
    prop::collection::vec(step, 3..40)
}

pub fn run_replica(ops: &[SOp], big: bool, local: &mut Local) -> Check {
    let mut sim = RSim::new(Disk::journaled())?;
    sim.check_contig = true;
    sim.w.check_contig = true;
    for op in ops {
        sim.apply(op, local)?;
    }
    if !big {
        sim.sync_all(local)?;
    }
    sim.replica_reopen()?;
    sim.check_replica(None, "final")?;
    local.class("replica_sessions");
    if sim.pages_held.len() >= 2 {
        local.class("replica_holding_blocks_on_two_or_more_pages");
        local.nontrivial(&ops);
    }
    Ok(())
}

/// A replica that holds every block of a writer whose length is an exact multiple of the bitfield
/// page size, except one; the gap is closed last (the contiguous length must jump to the length).
#[derive(Clone, Debug, Serialize, Deserialize)]
pub struct FullPageCase {
    pub len: u32,
    pub gap: u32,
    pub reopen_before_closing: bool,
}

pub fn run_full_page(c: &FullPageCase, local: &mut Local) -> Check {
    let mut sim = RSim::new(Disk::new())?;
    sim.check_contig = true;
    let mut scratch = Local::default();
    sim.apply(&SOp::W(Op::Big(c.len)), &mut scratch)?;
    sim.apply(&SOp::R(Req { target: Target::None, upgrade: Upg::Full, seek: Seek::None }), &mut scratch)?;
    sim.quiet = true;
    for i in 0..c.len as u64 {
        if i == c.gap as u64 {
            continue;
        }
        sim.apply(&SOp::R(Req { target: Target::BlockAt(i), upgrade: Upg::None, seek: Seek::None }), &mut scratch)?;
    }
    sim.quiet = false;
    sim.check_replica(None, "all-but-one-held")?;
    if c.reopen_before_closing {
        sim.apply(&SOp::RReopen, &mut scratch)?;
    }
    sim.apply(&SOp::R(Req { target: Target::BlockAt(c.gap as u64), upgrade: Upg::None, seek: Seek::None }), &mut scratch)?;
    sim.check_replica(None, "gap-closed")?;
    sim.apply(&SOp::RReopen, &mut scratch)?;
    local.class("full_page_replicas");
    local.nontrivial(&(c.len, c.gap, c.reopen_before_closing));
    Ok(())
}

pub fn run(ctx: &Ctx) {
    ctx.set_rule(
        "cases = (1) all C01 alphabet sequences up to length L with the contiguous-length oracle, (2) scaled writer histories: big \
         batches (8191..65537 one-byte blocks), small appends, clears (incl. ones placed at fixed fractions so they straddle page \
         edges), reopens and crash-recovery steps (crash after a generated number of the call's storage operations, recover, continue), \
         (3) replicas fetching blocks pages apart from a 32769..110000-block writer with reopens and replica-side clears (single \
         blocks, arbitrary ranges, and ranges that start inside a page the replica never touched and end inside one it holds blocks on), (4) replicas holding all blocks but one of a writer whose length is an exact multiple of the \
         page size, the gap closed last, (5) small random sessions with replica-side clears. Oracle after every step: has(i) == model for ALL i < length, false for \
         length..length+3, for 6 probes in each of the 5 following pages and for far probes; contiguous_length == first missing index. \
         Non-trivial = length > 32768 with >= 1 reopen/crash recovery, or a replica holding blocks on >= 2 bitfield pages, or a clear \
         strictly inside the contiguous prefix followed by a reopen.",
    );
    let l = ctx.tier.pick(5u32, 6u32);
    let n = seq_count(8, l);
    indexed_stage(
        ctx,
        "small-exhaustive",
        n,
        |i| seq_at(8, i).into_iter().map(alphabet_op).collect::<Vec<Op>>(),
        |ops, local| {
            // non-triviality of this stage is not counted (C01's rule does not apply here)
            let mut scratch = Local::default();
            local.class("small_sequences");
            crate::props::c01::run_history(ops, ObsPolicy::Full, true, &mut scratch)
        },
    );
    ctx.extra("exhaustive_stage", json!({"alphabet": ALPHABET, "max_len": l, "sequences": n, "exhaustive": true}));
    random_stage(ctx, "scaled", ctx.tier.pick(240, 5_000), scaled_strategy, |ops: &Vec<C8Op>, local| run_scaled(ops, local));
    random_stage(ctx, "page-clears", ctx.tier.pick(64, 1_200), page_clear_history_strategy, |ops: &Vec<Op>, local| {
        let wrapped: Vec<C8Op> = ops.iter().cloned().map(C8Op::Do).collect();
        run_scaled(&wrapped, local)
    });
    random_stage(ctx, "big-replicas", ctx.tier.pick(64, 1_500), big_replica_strategy, |ops: &Vec<SOp>, local| run_replica(ops, true, local));
    random_stage(ctx, "page-gap-replicas", ctx.tier.pick(96, 2_000), page_gap_replica_strategy, |ops: &Vec<SOp>, local| run_replica(ops, true, local));
    let mut fp = vec![
        FullPageCase { len: 32768, gap: 5, reopen_before_closing: false },
        FullPageCase { len: 32768, gap: 32767, reopen_before_closing: true },
    ];
    {
        fp.extend([
            FullPageCase { len: 65536, gap: 32768, reopen_before_closing: false },
            FullPageCase { len: 65536, gap: 7, reopen_before_closing: true },
            FullPageCase { len: 32768, gap: 0, reopen_before_closing: false },
            FullPageCase { len: 8192, gap: 4000, reopen_before_closing: true },
        ]);
    }
    let nfp = fp.len() as u64;
    indexed_stage(ctx, "full-page-replicas", nfp, |i| fp[i as usize].clone(), run_full_page);
    random_stage(ctx, "small-replicas", ctx.tier.pick(4_000, 80_000), small_replica_strategy, |ops: &Vec<SOp>, local| run_replica(ops, false, local));
}

pub fn replay(case: &Value) -> Check {
    let mut l = Local::default();
    if case.get("gap").is_some() {
        let c: FullPageCase = serde_json::from_value(case.clone()).map_err(|e| Failure::new("bad-replay", e.to_string()))?;
        return run_full_page(&c, &mut l);
    }
    if let Ok(ops) = serde_json::from_value::<Vec<C8Op>>(case.clone()) {
        return run_scaled(&ops, &mut l);
    }
    if let Ok(ops) = serde_json::from_value::<Vec<Op>>(case.clone()) {
        return crate::props::c01::run_history(&ops, ObsPolicy::Full, true, &mut l);
    }
    let ops: Vec<SOp> = serde_json::from_value(case.clone()).map_err(|e| Failure::new("bad-replay", e.to_string()))?;
    let big = ops.iter().any(|o| matches!(o, SOp::W(Op::Big(_))));
    run_replica(&ops, big, &mut l)
}
