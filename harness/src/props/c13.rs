//! C13 — replication events announce exactly the state changes that happened.

use crate::backend::Disk;
use crate::exec::{block_on, catch};
use crate::model::sel;
use crate::mutate::*;
use crate::ops::*;
use crate::repl::*;
use crate::runner::*;
use async_broadcast::{Receiver, TryRecvError};
use hypercore::replication::Event;
use hypercore::Hypercore;
use proptest::prelude::*;
use serde::{Deserialize, Serialize};
use serde_json::Value;
use std::collections::BTreeSet;

#[derive(Clone, Debug, PartialEq, Eq)]
pub enum Ev {
    Get(u64),
    Upgrade,
    Have(u64, u64, bool),
}

fn drain(rx: &mut Receiver<Event>) -> Vec<Ev> {
    let mut out = vec![];
    loop {
        match rx.try_recv() {
            Ok(Event::Get(g)) => out.push(Ev::Get(g.index)),
            Ok(Event::DataUpgrade(_)) => out.push(Ev::Upgrade),
            Ok(Event::Have(h)) => out.push(Ev::Have(h.start, h.length, h.drop)),
            Err(TryRecvError::Overflowed(n)) => out.push(Ev::Have(u64::MAX, n, true)), // marks lost events
            Err(_) => break,
        }
    }
    out
}

pub struct Subs {
    pub rxs: Vec<Receiver<Event>>,
    pub announced: BTreeSet<u64>,
    /// a subscriber that is NOT drained after every call: it is read only at the end of the history
    /// (or before a reopen) and must then hold the same events, in operation order, as the per-call
    /// lists the eager subscribers saw since it subscribed (`lazy_log`); when more than 32 events
    /// piled up the channel may have dropped the oldest ones (best-effort delivery), then what it
    /// holds must be a suffix of that log
    pub lazy: Option<Receiver<Event>>,
    pub lazy_log: Vec<Ev>,
    pub lazy_checked: u64,
    pub lazy_overflowed: u64,
}

impl Subs {
    fn new() -> Self {
        Subs { rxs: vec![], announced: BTreeSet::new(), lazy: None, lazy_log: vec![], lazy_checked: 0, lazy_overflowed: 0 }
    }
    fn subscribe(&mut self, core: &Hypercore) {
        if self.rxs.len() < 4 {
            self.rxs.push(core.event_subscribe());
            if self.lazy.is_none() {
                self.lazy = Some(core.event_subscribe());
                self.lazy_log.clear();
            }
        }
    }
    fn resubscribe(&mut self, core: &Hypercore) {
        let n = self.rxs.len();
        self.rxs.clear();
        for _ in 0..n {
            self.rxs.push(core.event_subscribe());
        }
        self.lazy = None;
        self.lazy_log.clear();
        if n > 0 {
            self.lazy = Some(core.event_subscribe());
        }
    }
    /// Read the lazy subscriber and compare it with what the eager ones saw call by call.
    pub fn check_lazy(&mut self, ctxt: &str) -> Check {
        if self.lazy.is_none() {
            return Ok(());
        }
        // whatever the eager subscribers have not read yet belongs to the log as well
        let _ = self.collect(ctxt)?;
        let Some(mut rx) = self.lazy.take() else { return Ok(()) };
        let got_all = drain(&mut rx);
        let lost: u64 = got_all.iter().filter_map(|e| if let Ev::Have(u64::MAX, n, true) = e { Some(*n) } else { None }).sum();
        let got: Vec<Ev> = got_all.into_iter().filter(|e| !matches!(e, Ev::Have(u64::MAX, _, true))).collect();
        let log = std::mem::take(&mut self.lazy_log);
        self.lazy_checked += 1;
        if log.len() <= 32 {
            if lost != 0 || got != log {
                return Err(Failure::new(
                    "lazy-subscriber-differs",
                    format!("{ctxt}: a subscriber read only now holds {got:?} (lost {lost}), the subscribers read after every call saw {log:?}"),
                ));
            }
        } else {
            self.lazy_overflowed += 1;
            if got.len() > log.len() || log[log.len() - got.len()..] != got[..] {
                return Err(Failure::new(
                    "lazy-subscriber-not-a-suffix",
                    format!("{ctxt}: after an overflow a subscriber read only now holds {got:?}, which is not a suffix of {log:?}"),
                ));
            }
        }
        Ok(())
    }
    /// Drain all receivers; all must have seen the same list. Returns it (None without subscribers).
    fn collect(&mut self, ctxt: &str) -> Result<Option<Vec<Ev>>, Failure> {
        let mut lists: Vec<Vec<Ev>> = self.rxs.iter_mut().map(drain).collect();
        let Some(first) = lists.pop() else { return Ok(None) };
        if self.lazy.is_some() {
            self.lazy_log.extend(first.iter().cloned());
        }
        for (i, l) in lists.iter().enumerate() {
            if *l != first {
                return Err(Failure::new("subscribers-disagree", format!("{ctxt}: subscriber {i} saw {l:?} but the last subscriber saw {first:?}")));
            }
        }
        for e in &first {
            if let Ev::Have(s, l, false) = e {
                for i in *s..s.saturating_add(*l).min(s + 100_000) {
                    self.announced.insert(i);
                }
            }
        }
        Ok(Some(first))
    }
    fn expect(&mut self, expected: &[Ev], ctxt: &str) -> Check {
        if let Some(got) = self.collect(ctxt)? {
            if got != expected {
                return Err(Failure::new(format!("events-mismatch:{}", ev_kind(expected, &got)), format!("{ctxt}: subscribers saw {got:?}, expected {expected:?}")));
            }
        }
        Ok(())
    }
}

fn ev_kind(expected: &[Ev], got: &[Ev]) -> &'static str {
    if expected.is_empty() {
        "unexpected-events"
    } else if got.is_empty() {
        "missing-events"
    } else if got.len() != expected.len() {
        "wrong-count"
    } else {
        let mut e = expected.to_vec();
        let mut g = got.to_vec();
        e.sort_by_key(|x| format!("{x:?}"));
        g.sort_by_key(|x| format!("{x:?}"));
        if e == g {
            "wrong-order"
        } else {
            "wrong-content"
        }
    }
}

#[derive(Clone, Debug, PartialEq, Eq, Hash, Serialize, Deserialize)]
pub enum WEOp {
    Do(Op),
    Subscribe,
    /// arm a single I/O fault sel(x, 14) storage operations from now: the call that hits it fails
    /// and must emit nothing (the history ends there)
    Fault(u16),
}

pub fn wevents_strategy() -> impl Strategy<Value = Vec<WEOp>> {
    let op = prop_oneof![
        5 => blk_strategy().prop_map(|b| WEOp::Do(Op::Append(b))),
        4 => prop::collection::vec(small_blk_strategy(), 0..6).prop_map(|b| WEOp::Do(Op::Batch(b))),
        3 => clear_strategy().prop_map(WEOp::Do),
        6 => idx_strategy().prop_map(|i| WEOp::Do(Op::Get(i))),
        1 => idx_strategy().prop_map(|i| WEOp::Do(Op::Has(i))),
        1 => Just(WEOp::Do(Op::Info)),
        1 => Just(WEOp::Do(Op::Reopen)),
        1 => Just(WEOp::Do(Op::MakeReadOnly)),
        3 => Just(WEOp::Subscribe),
        1 => any::<u16>().prop_map(WEOp::Fault),
    ];
    prop::collection::vec(op, 1..40)
}

/// Long writer histories: enough events for a subscriber that is not read to fall behind by more
/// than the channel holds, and batches of hundreds of blocks whose log entries take the oplog
/// over its 64 KiB budget (an out-of-turn flush inside the call).
pub fn wevents_long_strategy() -> impl Strategy<Value = Vec<WEOp>> {
    let op = prop_oneof![
        8 => small_blk_strategy().prop_map(|b| WEOp::Do(Op::Append(b))),
        3 => prop::collection::vec(small_blk_strategy(), 0..4).prop_map(|b| WEOp::Do(Op::Batch(b))),
        2 => prop_oneof![Just(300u32), Just(480), Just(900), Just(1000), Just(1900)].prop_map(|n| WEOp::Do(Op::Big(n))),
        2 => clear_strategy().prop_map(WEOp::Do),
        4 => idx_strategy().prop_map(|i| WEOp::Do(Op::Get(i))),
        1 => Just(WEOp::Do(Op::Reopen)),
        2 => Just(WEOp::Subscribe),
    ];
    prop::collection::vec(op, 30..90).prop_map(|mut v| {
        v.insert(0, WEOp::Subscribe);
        v
    })
}

pub fn run_writer(ops: &[WEOp], local: &mut Local) -> Check {
    let disk = Disk::new();
    let mut sim = WSim::create(&disk, ObsPolicy::Windowed)?;
    let mut subs = Subs::new();
    let mut became_held: BTreeSet<u64> = BTreeSet::new();
    let mut noop_calls = 0;
    let mut multi_batch = false;
    let mut fault_armed = false;
    let mut faulted_with_subscribers = false;
    for (k, weop) in ops.iter().enumerate() {
        let op = match weop {
            WEOp::Subscribe => {
                subs.subscribe(sim.core());
                continue;
            }
            WEOp::Fault(x) => {
                if !fault_armed {
                    disk.set_fault((disk.ops() + sel(*x, 14)) as i64);
                    fault_armed = true;
                }
                continue;
            }
            WEOp::Do(op) => op,
        };
        let ctxt = format!("writer step {k} {op:?}");
        let old_len = sim.model.len();
        let writeable = sim.model.writeable;
        let out = sim.exec(op)?;
        if disk.fault_hit() {
            // an injected storage error: if the call failed it must have emitted nothing
            if matches!(out, Out::Err(_)) {
                local.class("writer_calls_failed_by_injected_fault");
                if !subs.rxs.is_empty() {
                    faulted_with_subscribers = true;
                }
                subs.expect(&[], &format!("{ctxt} (failed with an injected I/O error)"))?;
            }
            break;
        }
        // expected events
        let expected: Option<Vec<Ev>> = match (op, &out) {
            (Op::Append(_), Out::Appended { .. }) => Some(vec![Ev::Upgrade, Ev::Have(old_len, 1, false)]),
            (Op::Batch(b), Out::Appended { .. }) if !b.is_empty() && writeable => {
                if b.len() >= 2 {
                    multi_batch = true;
                }
                Some(vec![Ev::Upgrade, Ev::Have(old_len, b.len() as u64, false)])
            }
            (Op::Big(n), Out::Appended { .. }) if writeable => {
                multi_batch = true;
                local.class("batches_of_hundreds_of_blocks_announced");
                Some(vec![Ev::Upgrade, Ev::Have(old_len, *n as u64, false)])
            }
            (Op::Batch(_), _) | (Op::Append(_), _) | (Op::Big(_), _) => {
                noop_calls += 1;
                Some(vec![])
            }
            (Op::Get(i), Out::Got(_)) => {
                let i = sim.idx(i);
                if sim.model.has(i) {
                    Some(vec![])
                } else {
                    Some(vec![Ev::Get(i)])
                }
            }
            (Op::Has(_), _) | (Op::Info, _) => Some(vec![]),
            (Op::MakeReadOnly, _) => Some(vec![]),
            (Op::Clear { .. }, _) => None,
            (Op::Reopen, _) => None,
            _ => Some(vec![]),
        };
        sim.check_and_advance(op, &out)?;
        sim.step += 1;
        if matches!(op, Op::Reopen) {
            subs.check_lazy(&ctxt)?;
            subs.resubscribe(sim.core());
            continue;
        }
        match expected {
            Some(e) => subs.expect(&e, &ctxt)?,
            None => {
                // clear: not specified; must not announce availability
                if let Some(got) = subs.collect(&ctxt)? {
                    if got.iter().any(|e| matches!(e, Ev::Upgrade | Ev::Have(_, _, false))) {
                        return Err(Failure::new("clear-announced-availability", format!("{ctxt}: subscribers saw {got:?}")));
                    }
                }
            }
        }
        if let (Op::Append(_) | Op::Batch(_) | Op::Big(_), Out::Appended { .. }) = (op, &out) {
            for i in old_len..sim.model.len() {
                became_held.insert(i);
            }
        }
    }
    if !subs.rxs.is_empty() {
        // union of announced ranges == indices that became available while subscribed:
        // with subscription starting mid-history only a subset relation is decidable
        if !subs.announced.is_subset(&became_held) {
            return Err(Failure::new("announced-not-held", format!("announced {:?} but only {:?} became available", subs.announced, became_held)));
        }
    }
    subs.check_lazy("end of the writer history")?;
    local.class_n("lazy_subscriber_checks", subs.lazy_checked);
    local.class_n("lazy_subscriber_checks_after_overflow", subs.lazy_overflowed);
    local.class("writer_histories");
    if subs.rxs.len() >= 2 {
        local.class("with_two_or_more_subscribers");
    }
    if (subs.rxs.len() >= 2 && multi_batch && noop_calls > 0) || faulted_with_subscribers {
        local.nontrivial(&ops);
    }
    Ok(())
}

#[derive(Clone, Debug, PartialEq, Eq, Hash, Serialize, Deserialize)]
pub enum REOp {
    S(SOp),
    Subscribe,
    /// honest proof for the request altered by these alterations (selectors), applied to the replica
    Altered(Req, Vec<u16>),
    /// replica get(i), selector over 0..replica length+3
    Get(u16),
    /// a proof with another fork
    WrongFork(Req),
    /// apply an earlier accepted honest proof once more (selector over the proofs accepted so far)
    Replay(u16),
    /// arm a single I/O fault on the replica's storage sel(x, 14) operations from now
    Fault(u16),
}

pub fn revents_strategy() -> impl Strategy<Value = Vec<REOp>> {
    let op = prop_oneof![
        12 => sop_strategy().prop_map(REOp::S),
        4 => Just(REOp::Subscribe),
        4 => (req_strategy(), prop::collection::vec(any::<u16>(), 1..3)).prop_map(|(r, a)| REOp::Altered(r, a)),
        4 => any::<u16>().prop_map(REOp::Get),
        1 => req_strategy().prop_map(REOp::WrongFork),
        3 => any::<u16>().prop_map(REOp::Replay),
        1 => any::<u16>().prop_map(REOp::Fault),
    ];
    (prop::collection::vec(op, 3..40), 0usize..3).prop_map(|(mut v, early)| {
        // usually subscribe early so that the whole history is observed
        for _ in 0..early {
            v.insert(0, REOp::Subscribe);
        }
        v
    })
}

pub fn run_replica(ops: &[REOp], local: &mut Local) -> Check {
    let mut sim = RSim::new(Disk::new())?;
    sim.quiet = true;
    let mut subs = Subs::new();
    let mut scratch = Local::default();
    let mut became_held: BTreeSet<u64> = BTreeSet::new();
    let mut subscribed_from_start = true;
    let mut accepted = 0;
    let mut refused = 0;
    let mut history: Vec<hypercore::Proof> = vec![];
    let mut fault_armed = false;
    for (k, reop) in ops.iter().enumerate() {
        let ctxt = format!("replica step {k} {reop:?}");
        if sim.rdisk.fault_hit() {
            break;
        }
        match reop {
            REOp::Fault(x) => {
                if !fault_armed {
                    sim.rdisk.set_fault((sim.rdisk.ops() + sel(*x, 14)) as i64);
                    fault_armed = true;
                }
            }
            REOp::Replay(x) => {
                if history.is_empty() {
                    continue;
                }
                let p = history[sel(*x, history.len() as u64) as usize].clone();
                let wl = sim.wlen();
                let r = sim.replica();
                let before_held: BTreeSet<u64> = (0..wl + 2).filter(|i| r.has(*i)).collect();
                let res = catch(|| block_on(r.verify_and_apply_proof(&p))).map_err(|e| panic_failure(&ctxt, &e))?;
                match res {
                    Ok(true) => {
                        local.class("replayed_proof_accepted");
                        let mut exp = vec![];
                        if p.upgrade.is_some() {
                            exp.push(Ev::Upgrade);
                        }
                        if let Some(b) = &p.block {
                            exp.push(Ev::Have(b.index, 1, false));
                            if !before_held.contains(&b.index) {
                                became_held.insert(b.index);
                            }
                            // a block announced again was available before: count it as available
                            became_held.insert(b.index);
                        }
                        subs.expect(&exp, &ctxt)?;
                        let r = sim.replica();
                        let info = r.info();
                        let now: BTreeSet<u64> = (0..wl + 2).filter(|i| r.has(*i)).collect();
                        sim.rm.length = info.length;
                        sim.rm.byte_length = info.byte_length;
                        sim.rm.held = now;
                        accepted += 1;
                    }
                    Ok(false) | Err(_) => {
                        refused += 1;
                        subs.expect(&[], &ctxt)?;
                    }
                }
            }
            REOp::Subscribe => {
                if subs.rxs.is_empty() && sim.accepted > 0 {
                    subscribed_from_start = false;
                }
                let r = sim.r.as_ref().unwrap();
                subs.subscribe(r);
            }
            REOp::S(SOp::W(op)) => sim.writer_op(op)?,
            REOp::S(SOp::R(req)) | REOp::Altered(req, _) | REOp::WrongFork(req) => {
                let c = match sim.resolve(req)? {
                    Ok(c) => c,
                    Err(_) => {
                        let _ = subs.collect(&ctxt)?; // missing_nodes: not specified
                        continue;
                    }
                };
                let _ = subs.collect(&ctxt)?; // missing_nodes: not specified
                let proof = match sim.writer_proof(&c)? {
                    Ok(Some(p)) => p,
                    _ => continue,
                };
                let wl = sim.wlen();
                let wbytes = sim.w.model.byte_length;
                let mut pp = PProof::from_proof(&proof);
                match reop {
                    REOp::Altered(_, alts) => {
                        let (set, _) = alterations(&pp);
                        for a in alts {
                            if !set.is_empty() {
                                apply_alt(&mut pp, &set[sel(*a, set.len() as u64) as usize]);
                            }
                        }
                    }
                    REOp::WrongFork(_) => pp.fork = 1,
                    _ => {}
                }
                let p = pp.to_proof();
                let r = sim.replica();
                let before_held: BTreeSet<u64> = (0..wl + 2).filter(|i| r.has(*i)).collect();
                let res = catch(|| block_on(r.verify_and_apply_proof(&p))).map_err(|e| panic_failure(&ctxt, &e))?;
                match res {
                    Ok(true) => {
                        accepted += 1;
                        if matches!(reop, REOp::S(_)) {
                            history.push(p.clone());
                        }
                        let mut exp = vec![];
                        if p.upgrade.is_some() {
                            exp.push(Ev::Upgrade);
                        }
                        if let Some(b) = &p.block {
                            exp.push(Ev::Have(b.index, 1, false));
                        }
                        subs.expect(&exp, &ctxt)?;
                        // bookkeeping (only honest proofs advance the model; altered-but-accepted ones are
                        // harmless by C04 and re-synchronised from the core's own answers)
                        let r = sim.replica();
                        let info = r.info();
                        let now: BTreeSet<u64> = (0..wl + 2).filter(|i| r.has(*i)).collect();
                        sim.rm.length = info.length;
                        sim.rm.byte_length = info.byte_length;
                        for i in now.difference(&before_held) {
                            became_held.insert(*i);
                        }
                        sim.rm.held = now;
                        sim.accepted += 1;
                        let _ = wbytes;
                    }
                    Ok(false) | Err(_) => {
                        refused += 1;
                        subs.expect(&[], &ctxt)?;
                    }
                }
            }
            REOp::S(SOp::RReopen) => {
                sim.replica_reopen()?;
                if sim.rdisk.fault_hit() {
                    // the injected fault made open fail: there is no instance any more
                    break;
                }
                subs.check_lazy(&ctxt)?;
                let r = sim.r.as_ref().unwrap();
                subs.resubscribe(r);
            }
            REOp::S(SOp::Sync) | REOp::S(SOp::RClearRange(..)) | REOp::S(SOp::RClearAt(..)) => {}
            REOp::S(SOp::RClear(x)) => {
                sim.replica_clear(*x, &mut scratch)?;
                if let Some(got) = subs.collect(&ctxt)? {
                    if got.iter().any(|e| matches!(e, Ev::Upgrade | Ev::Have(_, _, false))) {
                        return Err(Failure::new("clear-announced-availability", format!("{ctxt}: subscribers saw {got:?}")));
                    }
                }
            }
            REOp::Get(x) => {
                let len = sim.rm.length;
                let i = sel(*x, len + 3);
                let held = sim.rm.held.contains(&i);
                let r = sim.replica();
                let g = catch(|| block_on(r.get(i))).map_err(|e| panic_failure(&ctxt, &e))?;
                if g.is_ok() {
                    let exp = if held { vec![] } else { vec![Ev::Get(i)] };
                    subs.expect(&exp, &ctxt)?;
                } else {
                    let _ = subs.collect(&ctxt)?;
                }
            }
        }
    }
    if !subs.rxs.is_empty() {
        if !subs.announced.is_subset(&became_held) {
            return Err(Failure::new("announced-not-held", format!("announced {:?} but only {:?} became available", subs.announced, became_held)));
        }
        let no_reopen = !ops.iter().any(|o| matches!(o, REOp::S(SOp::RReopen)));
        if subscribed_from_start && no_reopen && matches!(ops.first(), Some(REOp::Subscribe)) && subs.announced != became_held {
            return Err(Failure::new(
                "union-of-announced-ranges-differs",
                format!("subscribed from the start: announced {:?} but {:?} became available", subs.announced, became_held),
            ));
        }
    }
    subs.check_lazy("end of the replica history")?;
    local.class_n("lazy_subscriber_checks", subs.lazy_checked);
    local.class_n("lazy_subscriber_checks_after_overflow", subs.lazy_overflowed);
    local.class("replica_histories");
    if accepted > 0 {
        local.class("with_accepted_proof");
    }
    if refused > 0 {
        local.class("with_refused_proof");
    }
    if subs.rxs.len() >= 2 {
        local.class("with_two_or_more_subscribers");
    }
    if subs.rxs.len() >= 2 && accepted > 0 && refused > 0 {
        local.nontrivial(&ops);
    }
    Ok(())
}

pub fn run(ctx: &Ctx) {
    ctx.set_rule(
        "cases = histories with 0..4 subscribers (all drained with try_recv after every call, so < 32 events are pending). Writers (histories of up to 40 calls, and long ones of 30-90 calls with batches of 300-1900 blocks): \
         appends, batches (incl. empty), clears, gets of held/missing/out-of-range indices, has/info, make_read_only followed by refused \
         appends, reopen (re-subscribing). Replicas: C03 sessions plus honest proofs altered by 1-2 alterations of the C04 set, proofs \
         with another fork, gets, replica clears. Oracle per call: the exact expected event list (append: [DataUpgrade, Have(old \
         length, n, false)]; accepted proof: [DataUpgrade] iff it carried an upgrade then [Have(index,1,false)] iff it carried a \
         block; get of a non-held index: [Get(index)]; held get/has/info/empty batch/refused/failed calls: []), identical for every \
         subscriber; clear must not announce availability; the union of announced ranges equals the set of indices that became \
         available (when subscribed from the start). One further subscriber per history is NOT read after every call but only at the \
         end (or before a reopen): it must then hold exactly the concatenation of the per-call lists, in operation order (a suffix of it \
         when more than 32 events piled up, the channel being best-effort beyond its capacity). Non-trivial = >= 2 subscribers with (writer) a batch of >= 2 blocks and a no-op \
         call, or (replica) >= 1 accepted and >= 1 refused proof.",
    );
    ctx.assume("event content of calls the statement does not mention (missing_nodes, clear) is not asserted beyond 'clear announces no availability'");
    random_stage(ctx, "writers", ctx.tier.pick(100_000, 1_500_000), wevents_strategy, |ops: &Vec<WEOp>, local| run_writer(ops, local));
    random_stage(ctx, "long-writers", ctx.tier.pick(1_500, 40_000), wevents_long_strategy, |ops: &Vec<WEOp>, local| run_writer(ops, local));
    random_stage(ctx, "replicas", ctx.tier.pick(60_000, 1_000_000), revents_strategy, |ops: &Vec<REOp>, local| run_replica(ops, local));
}

pub fn replay(case: &Value) -> Check {
    let mut l = Local::default();
    if let Ok(ops) = serde_json::from_value::<Vec<WEOp>>(case.clone()) {
        return run_writer(&ops, &mut l);
    }
    let ops: Vec<REOp> = serde_json::from_value(case.clone()).map_err(|e| Failure::new("bad-replay", e.to_string()))?;
    run_replica(&ops, &mut l)
}
