//! C07 — a torn final write is tolerated like a clean crash.

use crate::crash::*;
use crate::ops::*;
use crate::props::c01::{alphabet_op, seq_at, seq_count, ALPHABET};
use crate::props::c02::{crash_history_strategy, test_history};
use crate::runner::*;
use serde_json::{json, Value};

fn cfg(seed: u64) -> CrashCfg {
    CrashCfg { torn: true, torn_only: true, recurse_every: None, suffix: true, check_contig: false, seed, suffix_variant: 0 }
}

pub fn run(ctx: &Ctx) {
    ctx.set_rule(
        "evaluations = recoveries from torn states; histories as C02; for every crash point whose next storage operation is a write of n bytes the files are \
         rebuilt with only the first c bytes of that write applied: ALL 0<c<n for n<=64, otherwise c in {1..16, 32, 40, 41, 64, 72, 96, \
         104, n-2, n-1, every multiple of 512} plus 4 seeded-random cuts; reopen must succeed and show the before-or-after state of the \
         call in progress, then the usability suffix runs. classes.torn_states counts recoveries. Non-trivial torn state = torn write \
         into the oplog (header slot or entry) or over older content of a tree/bitfield/data region; distinct = (journal length, \
         operation index, cut).",
    );
    ctx.assume("the torn write leaves exactly a byte prefix of the written data in the store; everything before it is durable");
    let cfg = cfg(ctx.seed);
    let l = ctx.tier.pick(3u32, 4u32);
    let n = seq_count(8, l);
    indexed_stage(
        ctx,
        "exhaustive",
        n,
        |i| seq_at(8, i).into_iter().map(alphabet_op).collect::<Vec<Op>>(),
        |ops, local| test_history(ops, &cfg, local),
    );
    ctx.extra("exhaustive_stage", json!({"alphabet": ALPHABET, "max_len": l, "sequences": n, "exhaustive": true}));
    random_stage(ctx, "random", ctx.tier.pick(500, 10_000), || crash_history_strategy(25), |ops: &Vec<Op>, local| test_history(ops, &cfg, local));
    crate::props::repl_crash::run_replica_stage(ctx, &cfg, ctx.tier.pick(150, 3_000));
}

pub fn replay(case: &Value) -> Check {
    if case.get("session").is_some() {
        return crate::props::repl_crash::replay(case, true);
    }
    let ops: Vec<Op> = serde_json::from_value(case.clone()).map_err(|e| Failure::new("bad-replay", e.to_string()))?;
    let mut l = Local::default();
    test_history(&ops, &cfg(1), &mut l)
}
