//! Replica-side histories for the crash/torn-write enumeration (C02, C07). (stub, filled in below)
use crate::crash::CrashCfg;
use crate::runner::*;
use serde_json::Value;

pub fn run_replica_stage(_ctx: &Ctx, _cfg: &CrashCfg, _n: u64) {}
pub fn replay(_case: &Value, _torn: bool) -> Check {
    Ok(())
}
