//! Replica-side histories for crash / torn-write / fault enumeration (C02, C07, C10):
//! a scripted honest writer grows in rounds and a journaled replica applies its proofs.

use crate::backend::{apply, apply_torn, empty_files, Disk, Files, JOp, OPLOG};
use crate::crash::{is_header_write, torn_cuts, CrashCfg};
use crate::hc::{self, brief_get, Obs};
use crate::model::ReplicaModel;
use crate::ops::*;
use crate::repl::*;
use crate::runner::*;
use proptest::prelude::*;
use serde::{Deserialize, Serialize};
use serde_json::Value;

#[derive(Clone, Debug, PartialEq, Eq, Hash, Serialize, Deserialize)]
pub struct ReplCase {
    pub session: Vec<SOp>,
}

fn rsop_strategy() -> impl Strategy<Value = SOp> {
    prop_oneof![
        3 => wblk_strategy().prop_map(|b| SOp::W(Op::Append(b))),
        3 => prop::collection::vec(wblk_strategy(), 1..7).prop_map(|b| SOp::W(Op::Batch(b))),
        1 => clear_strategy().prop_map(SOp::W),
        14 => req_strategy().prop_map(SOp::R),
        4 => Just(SOp::RReopen),
        1 => any::<u16>().prop_map(SOp::RClear),
    ]
}

pub fn replcase_strategy() -> impl Strategy<Value = ReplCase> {
    prop::collection::vec(rsop_strategy(), 2..22).prop_map(|session| ReplCase { session })
}

fn robs_vs_model(obs: &Obs, rm: &ReplicaModel, wblocks: &[Vec<u8>]) -> Option<String> {
    if obs.length != rm.length {
        return Some(format!("length {} vs model {}", obs.length, rm.length));
    }
    if obs.byte_length != rm.byte_length {
        return Some(format!("byte_length {} vs model {}", obs.byte_length, rm.byte_length));
    }
    if obs.writeable {
        return Some("replica writeable".into());
    }
    if obs.fork != 0 {
        return Some(format!("fork {}", obs.fork));
    }
    for (i, has, get) in &obs.blocks {
        let held = rm.held.contains(i);
        if *has != held {
            return Some(format!("has({i}) {has} vs model {held}"));
        }
        let exp: Result<Option<Vec<u8>>, String> = Ok(if held { Some(wblocks[*i as usize].clone()) } else { None });
        if *get != exp {
            return Some(format!("get({i}) {} vs model {}", brief_get(get), brief_get(&exp)));
        }
    }
    None
}

struct RRec {
    op: SOp,
    b: usize,
    e: usize,
    before: ReplicaModel,
    after: ReplicaModel,
    unflushed_before: u32,
}

/// Recover the replica from `files`, compare with the candidate models, then let honest
/// replication with the (final) writer complete.
#[allow(clippy::too_many_arguments)]
fn recover_replica(sim: &mut RSim, files: &Files, cands: &[&ReplicaModel], ctxt: &str, with_suffix: bool, local: &mut Local) -> Check {
    let disk = Disk::new();
    disk.set_files(files.clone());
    local.class("recoveries");
    local.evals += 1;
    let mut core = match hc::open(&disk) {
        Ok(Ok(c)) => c,
        Ok(Err(e)) => {
            return Err(Failure::new(format!("recovery-open-error:{}", err_kind(&e)), format!("{ctxt}: reopening the replica after the crash failed: {e}")))
        }
        Err(p) => return Err(panic_failure(&format!("{ctxt}: reopening the replica after the crash"), &p)),
    };
    let upto = cands.iter().map(|m| m.length).max().unwrap_or(0) + 3;
    let mut differ: Vec<u64> = vec![];
    if cands.len() > 1 && upto > 400 {
        for c in cands.iter().skip(1) {
            differ.extend(cands[0].held.symmetric_difference(&c.held).copied());
        }
    }
    let obs = hc::observe_with(&mut core, upto, false, &differ).map_err(|p| panic_failure(&format!("{ctxt}: observing the recovered replica"), &p))?;
    let mut matched = None;
    let mut diffs = vec![];
    for (i, m) in cands.iter().enumerate() {
        match robs_vs_model(&obs, m, &sim.wblocks) {
            None => {
                matched = Some(i);
                break;
            }
            Some(d) => diffs.push(d),
        }
    }
    let Some(mi) = matched else {
        let kind = if cands.len() == 1 { "recovery-lost-acknowledged-state" } else { "recovery-neither-before-nor-after" };
        return Err(Failure::new(kind, format!("{ctxt}: recovered replica matches none of the {} allowed model state(s): {}", cands.len(), diffs.join(" | "))));
    };
    if !with_suffix {
        return Ok(());
    }
    // usability: honest replication with the writer completes, replica reopens, reads match
    let rm = cands[mi].clone();
    let old_disk = std::mem::replace(&mut sim.rdisk, disk);
    let old_r = std::mem::replace(&mut sim.r, Some(core));
    let old_rm = std::mem::replace(&mut sim.rm, rm);
    let mut scratch = Local::default();
    let res = sim.sync_all(&mut scratch).and_then(|_| sim.replica_reopen());
    sim.rdisk = old_disk;
    sim.r = old_r;
    sim.rm = old_rm;
    res.map_err(|f| Failure::new(format!("after-recovery:{}", f.kind), format!("{ctxt}: honest replication after recovery: {}", f.detail)))
}

pub fn test_session(case: &ReplCase, cfg: &CrashCfg, local: &mut Local) -> Check {
    let rdisk = Disk::journaled();
    let mut sim = RSim::new(rdisk.clone())?;
    let k0 = rdisk.journal_len();
    let mut recs: Vec<RRec> = vec![];
    let mut scratch = Local::default();
    let mut unflushed = 0u32;
    for op in &case.session {
        let b = rdisk.journal_len();
        let before = sim.rm.clone();
        sim.apply(op, &mut scratch)?;
        let e = rdisk.journal_len();
        recs.push(RRec { op: op.clone(), b, e, before, after: sim.rm.clone(), unflushed_before: unflushed });
        if e > b {
            let j = rdisk.0.journal.lock().unwrap();
            if j[b..e].iter().any(is_header_write) {
                unflushed = 0;
            } else {
                unflushed += 1;
            }
        }
    }
    let journal = rdisk.journal();
    let n = journal.len();
    local.evals = local.evals.saturating_sub(1);
    local.class("replica_histories");
    let mut files = empty_files();
    for op in &journal[..k0] {
        apply(&mut files, op);
    }
    let mut rng = small_rng(cfg.seed, n as u64);
    let initial = ReplicaModel::new();
    for k in k0..=n {
        if k > k0 {
            apply(&mut files, &journal[k - 1]);
        }
        let inside = recs.iter().find(|c| c.b < k && k < c.e);
        let cands: Vec<&ReplicaModel> = match inside {
            Some(c) => vec![&c.before, &c.after],
            None => {
                let last = recs.iter().filter(|c| c.e <= k && c.e > c.b).next_back();
                vec![last.map(|c| &c.after).unwrap_or(&initial)]
            }
        };
        let desc = |what: &str| {
            let nc = recs.iter().find(|c| c.b <= k && k < c.e).map(|c| format!("{:?}", c.op)).unwrap_or_else(|| "end".into());
            let nextop = if k < n { journal[k].brief() } else { "-".into() };
            format!("replica {what} at journal prefix {k}/{n} (during {nc}; next storage op: {nextop})")
        };
        if !cfg.torn_only {
            local.class("crash_points");
            if let Some(c) = inside {
                if c.e - c.b >= 2 && c.unflushed_before > 0 {
                    local.nontrivial(&(hash_of(&case.session), k));
                    local.class("points_inside_multiop_call_with_unflushed_predecessor");
                }
                if is_header_write(&journal[k - 1]) {
                    local.class("points_between_header_write_and_next_op");
                }
            }
            let with_suffix = inside.is_some() || k % 3 == 0;
            recover_replica(&mut sim, &files, &cands, &desc("crash"), with_suffix, local)?;
        }
        if cfg.torn && k < n {
            if let JOp::Write { data, s, off } = &journal[k] {
                let c = recs.iter().find(|c| c.b <= k && k < c.e);
                let cands_t: Vec<&ReplicaModel> = match c {
                    Some(c) => vec![&c.before, &c.after],
                    None => cands.clone(),
                };
                for cut in torn_cuts(data.len(), &mut rng) {
                    let mut f2 = files.clone();
                    apply_torn(&mut f2, &journal[k], cut);
                    local.class("torn_states");
                    if *s == OPLOG {
                        local.class(if is_header_write(&journal[k]) { "torn_header_slot_writes" } else { "torn_entry_writes" });
                        local.nontrivial(&(hash_of(&case.session), k, cut));
                    } else if (*off as usize) < files[*s].len() {
                        local.class("torn_overwrites_of_older_content");
                        local.nontrivial(&(hash_of(&case.session), k, cut));
                    }
                    recover_replica(
                        &mut sim,
                        &f2,
                        &cands_t,
                        &desc(&format!("torn write ({cut} of {} bytes of {})", data.len(), journal[k].brief())),
                        cut % 4 == 1,
                        local,
                    )?;
                }
            }
        }
    }
    Ok(())
}

pub fn run_replica_stage(ctx: &Ctx, cfg: &CrashCfg, n: u64) {
    let cfg = *cfg;
    random_stage(ctx, "replica-random", n, replcase_strategy, move |c: &ReplCase, local| test_session(c, &cfg, local));
}

pub fn replay(case: &Value, torn: bool) -> Check {
    let c: ReplCase = serde_json::from_value(case.clone()).map_err(|e| Failure::new("bad-replay", e.to_string()))?;
    let cfg = CrashCfg { torn, torn_only: torn, recurse_every: None, suffix: true, check_contig: false, seed: 1, suffix_variant: 0 };
    let mut l = Local::default();
    test_session(&c, &cfg, &mut l)
}

// ------------------------------------------------------------------ fault injection (C10)

/// Run the session with replica storage operation `fault_at` failing once.
/// Returns (ops issued on the replica disk, ops after creation).
fn fault_run(case: &ReplCase, fault_at: Option<u64>, local: &mut Local) -> Result<(u64, u64), Failure> {
    let rdisk = Disk::new();
    let mut sim = RSim::new(rdisk.clone())?;
    sim.quiet = true;
    sim.w.policy = ObsPolicy::Windowed;
    let k0 = rdisk.ops();
    if let Some(k) = fault_at {
        rdisk.set_fault(k as i64);
    }
    let mut scratch = Local::default();
    for (ci, op) in case.session.iter().enumerate() {
        let before = sim.rm.clone();
        let r = sim.apply(op, &mut scratch);
        if rdisk.fault_hit() {
            let kind = rdisk.0.fault_kind.lock().unwrap().clone().unwrap_or_default();
            let what = format!("injected I/O error on replica storage operation {} ({kind}) during step {ci} {op:?}", fault_at.unwrap());
            // the step must have surfaced the error (RSim maps a swallowed fault to a Failure)
            r.map_err(|f| Failure::new(f.kind, format!("{what}: {}", f.detail)))?;
            local.class(&format!("replica_fault_on:{kind}"));
            local.nontrivial(&(hash_of(&case.session), fault_at));
            // the model after the step, had it succeeded: re-derive by what the step would have done
            let mut after = before.clone();
            if let SOp::R(_) = op {
                // possible effects: upgrade to the writer's current length and/or one block held
                after.length = sim.w.model.len();
                after.byte_length = sim.w.model.byte_length;
            }
            rdisk.set_fault(-1);
            sim.r = None;
            let files = rdisk.snapshot();
            // candidates: before; after-upgrade; each with the requested block held
            let mut cands: Vec<ReplicaModel> = vec![before.clone()];
            if let SOp::R(req) = op {
                let mut variants = vec![before.clone(), after.clone()];
                let blocks: Vec<u64> = match &req.target {
                    Target::Block(_) | Target::BlockAt(_) => (0..sim.w.model.len()).collect(),
                    _ => vec![],
                };
                // the exact block index was resolved inside the step; accept any single additional held block that the writer holds
                let base = variants.clone();
                for v in base {
                    for b in &blocks {
                        if !v.held.contains(b) && *b < v.length {
                            let mut x = v.clone();
                            x.held.insert(*b);
                            variants.push(x);
                        }
                    }
                }
                cands = variants;
            }
            if let SOp::RClear(_) = op {
                for h in before.held.iter() {
                    let mut x = before.clone();
                    x.held.remove(h);
                    cands.push(x);
                }
            }
            let refs: Vec<&ReplicaModel> = cands.iter().collect();
            recover_replica(&mut sim, &files, &refs, &what, true, local)?;
            return Ok((rdisk.ops(), k0));
        }
        r?;
    }
    Ok((rdisk.ops(), k0))
}

pub fn test_fault_session(case: &ReplCase, local: &mut Local) -> Check {
    let (total, k0) = fault_run(case, None, local)?;
    local.class("replica_histories");
    local.evals = local.evals.saturating_sub(1);
    for k in k0..total {
        local.class("fault_runs");
        fault_run(case, Some(k), local)?;
    }
    Ok(())
}

pub fn run_replica_fault_stage(ctx: &Ctx, n: u64) {
    random_stage(ctx, "replica-random", n, replcase_strategy, |c: &ReplCase, local| test_fault_session(c, local));
}

pub fn replay_fault(case: &Value) -> Check {
    let c: ReplCase = serde_json::from_value(case.clone()).map_err(|e| Failure::new("bad-replay", e.to_string()))?;
    let mut l = Local::default();
    test_fault_session(&c, &mut l)
}
