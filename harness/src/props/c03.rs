//! C03 — any honest proof is accepted and replicas converge to the writer's data.

use crate::backend::Disk;
use crate::model::Blk;
use crate::ops::*;
use crate::reftree as ft;
use crate::repl::*;
use crate::runner::*;
use proptest::prelude::*;
use serde_json::{json, Value};

fn small_block(i: u64) -> Blk {
    Blk { len: (i % 3) as u32, fill: (i as u8).wrapping_mul(7).wrapping_add(1) }
}

/// Sessions of the exhaustive single-request family.
pub fn exhaustive_sessions(nmax: u64) -> Vec<Vec<SOp>> {
    let mut out = vec![];
    for n2 in 1..=nmax {
        for n1 in 0..=n2 {
            for variant in 0..2u8 {
                if variant == 1 && n1 == 0 {
                    continue;
                }
                let mut prefix: Vec<SOp> = vec![];
                if n1 > 0 {
                    prefix.push(SOp::W(Op::Batch((0..n1).map(small_block).collect())));
                    prefix.push(SOp::R(Req { target: Target::None, upgrade: Upg::Full, seek: Seek::None }));
                    if variant == 1 {
                        // replica also holds the first and last block of round one
                        prefix.push(SOp::R(Req { target: Target::BlockAt(0), upgrade: Upg::None, seek: Seek::None }));
                        if n1 > 1 {
                            prefix.push(SOp::R(Req { target: Target::BlockAt(n1 - 1), upgrade: Upg::None, seek: Seek::None }));
                        }
                    }
                }
                if n2 > n1 {
                    prefix.push(SOp::W(Op::Batch((n1..n2).map(small_block).collect())));
                }
                let mut targets = vec![Target::None];
                targets.extend((0..n2).map(Target::BlockAt));
                targets.extend(ft::RefTree::full_indices(n2).into_iter().map(Target::HashAt));
                let mut upgrades = vec![Upg::None];
                upgrades.extend((1..=(n2 - n1)).map(Upg::Len));
                let total: u64 = (0..n2).map(|i| i % 3).sum();
                let mut seeks = vec![Seek::None, Seek::At(0), Seek::At(1), Seek::At(total / 2), Seek::At(total)];
                seeks.dedup();
                for t in &targets {
                    for u in &upgrades {
                        for s in &seeks {
                            // statically drop combinations that resolve() would skip anyway
                            let covered = n1 + match u {
                                Upg::Len(l) => *l,
                                _ => 0,
                            };
                            match t {
                                Target::BlockAt(i) if *i >= covered => continue,
                                Target::HashAt(j) if ft::right_span(*j) / 2 >= covered => continue,
                                _ => {}
                            }
                            if matches!(t, Target::None) && matches!(u, Upg::None) && matches!(s, Seek::None) {
                                continue;
                            }
                            let mut sess = prefix.clone();
                            sess.push(SOp::R(Req { target: t.clone(), upgrade: u.clone(), seek: s.clone() }));
                            out.push(sess);
                        }
                    }
                }
            }
        }
    }
    out
}

fn permutations(n: usize) -> Vec<Vec<u64>> {
    fn rec(cur: &mut Vec<u64>, used: &mut Vec<bool>, n: usize, out: &mut Vec<Vec<u64>>) {
        if cur.len() == n {
            out.push(cur.clone());
            return;
        }
        for i in 0..n {
            if !used[i] {
                used[i] = true;
                cur.push(i as u64);
                rec(cur, used, n, out);
                cur.pop();
                used[i] = false;
            }
        }
    }
    let mut out = vec![];
    rec(&mut vec![], &mut vec![false; n], n, &mut out);
    out
}

/// Every order in which a replica can fetch all blocks of a small log, in several
/// upgrade modes, with a reopen in the middle.
pub fn order_sessions(nmax: usize) -> Vec<Vec<SOp>> {
    let mut out = vec![];
    for n in 1..=nmax {
        for perm in permutations(n) {
            for mode in 0..4u8 {
                let mut s: Vec<SOp> = vec![];
                let n1 = if mode == 3 { (n as u64).div_ceil(2) } else { n as u64 };
                s.push(SOp::W(Op::Batch((0..n1).map(small_block).collect())));
                if mode == 2 {
                    s.push(SOp::R(Req { target: Target::None, upgrade: Upg::Full, seek: Seek::None }));
                }
                let mut grown = n1 == n as u64;
                for (k, i) in perm.iter().enumerate() {
                    if !grown && (*i >= n1 || k == n / 2) {
                        s.push(SOp::W(Op::Batch((n1..n as u64).map(small_block).collect())));
                        grown = true;
                    }
                    let upg = match mode {
                        0 | 3 => Upg::Full,
                        1 => Upg::Len(*i + 1), // the shortest upgrade that covers the block
                        _ => Upg::None,
                    };
                    s.push(SOp::R(Req { target: Target::BlockAt(*i), upgrade: upg, seek: Seek::None }));
                    if k == n / 2 {
                        s.push(SOp::RReopen);
                    }
                }
                out.push(s);
            }
        }
    }
    out
}

pub fn run_session(ops: &[SOp], final_sync: bool, local: &mut Local) -> Check {
    let mut sim = RSim::new(Disk::journaled())?;
    for op in ops {
        sim.apply(op, local)?;
    }
    if final_sync {
        sim.sync_all(local)?;
    }
    sim.replica_reopen()?;
    local.class("sessions");
    if sim.accepted > 0 {
        local.class("sessions_with_accepted_proof");
    }
    if sim.block_under_nonfirst_root {
        local.class("block_under_non_first_root");
    }
    if sim.block_with_upgrade_from_nonempty {
        local.class("block_with_upgrade_from_non_empty_replica");
    }
    if sim.applied_after_reopen_with_unflushed {
        local.class("proof_after_replica_reopen_with_unflushed_entries");
    }
    if sim.w.clears > 0 {
        local.class("sessions_with_writer_clear");
    }
    if sim.nontrivial() {
        local.nontrivial(&ops);
    }
    Ok(())
}

pub fn big_session_strategy() -> impl Strategy<Value = Vec<SOp>> {
    let far_block = prop_oneof![
        Just(0u64), Just(1), Just(5), Just(8191), Just(8192), Just(8193), Just(32767), Just(32768), Just(32769), Just(39999), Just(65535), Just(65536),
        0u64..40000, 0u64..98000,
    ];
    let req = (far_block, prop_oneof![Just(Upg::Full), any::<u16>().prop_map(Upg::Partial), Just(Upg::None)])
        .prop_map(|(i, u)| SOp::R(Req { target: Target::BlockAt(i), upgrade: u, seek: Seek::None }));
    let step = prop_oneof![
        8 => req,
        1 => Just(SOp::RReopen),
        1 => wblk_strategy().prop_map(|b| SOp::W(Op::Append(b))),
        // writer-side clears placed at bitfield page ends (single blocks up to whole pages)
        2 => page_clear_strategy().prop_map(SOp::W),
    ];
    (prop_oneof![Just(40000u32), Just(32769), Just(65537), Just(70000), Just(98305)], prop::collection::vec(step, 4..14)).prop_map(|(n, mut v)| {
        let mut s = vec![SOp::W(Op::Big(n))];
        s.append(&mut v);
        s
    })
}

/// Writer of 3-4 bitfield pages with page-relative clears, a replica fetching blocks around them.
pub fn page_clear_session_strategy() -> impl Strategy<Value = Vec<SOp>> {
    let blocks = prop::collection::vec(prop_oneof![0u64..32768, 32768u64..65536, 65536u64..70000, Just(5u64), Just(32767), Just(32768), Just(65535), Just(65536)], 3..8);
    (page_clear_history_strategy(), blocks).prop_map(|(ops, blocks)| {
        let mut s: Vec<SOp> = ops.into_iter().map(SOp::W).collect();
        for i in blocks {
            s.push(SOp::R(Req { target: Target::BlockAt(i), upgrade: Upg::Full, seek: Seek::None }));
        }
        s.push(SOp::RReopen);
        s
    })
}

pub fn run(ctx: &Ctx) {
    ctx.set_rule(
        "cases = replication sessions: writer ops (append/batch/clear/reopen) interleaved with replica requests \
         {block i | hash of tree node j | none} x {no upgrade | full | partial upgrade from the replica's length} x {seek | none}, \
         node counts from the replica's own missing_nodes, replica reopen steps, ending in the standard fetch-everything loop. \
         Oracle: created proofs must be accepted (Ok(true)), the replica's info/has/get must equal the replica model built from \
         the writer's blocks, cleared blocks yield no proof, convergence must complete. Stages: exhaustive single-request family \
         for all growth pairs n1<=n2<=N, all fetch orders for n<=5 in 4 upgrade modes, seeded-random sessions, big (40k-65k block) sessions. \
         Non-trivial = a block proof applied under a non-first root, or together with an upgrade from a non-empty replica, or after \
         a replica reopen with unflushed oplog entries. distinct = distinct sessions.",
    );
    ctx.assume("a writer-side Err is 'no proof' (documented refusals), counted per request shape in classes, not a violation of C03; writer panics are reported");
    let nmax = ctx.tier.pick(9u64, 12u64);
    let sessions = exhaustive_sessions(nmax);
    let n = sessions.len() as u64;
    indexed_stage(ctx, "exhaustive-requests", n, |i| sessions[i as usize].clone(), |ops, local| run_session(ops, true, local));
    let orders = order_sessions(5);
    let no = orders.len() as u64;
    indexed_stage(ctx, "exhaustive-orders", no, |i| orders[i as usize].clone(), |ops, local| run_session(ops, true, local));
    ctx.extra("exhaustive_stage", json!({"growth_pairs_up_to": nmax, "single_request_sessions": n, "fetch_order_sessions": no, "exhaustive": true}));
    random_stage(ctx, "random", ctx.tier.pick(6_000, 400_000), || session_strategy(40), |ops: &Vec<SOp>, local| run_session(ops, true, local));
    random_stage(ctx, "big", ctx.tier.pick(48, 2_000), big_session_strategy, |ops: &Vec<SOp>, local| run_session(ops, false, local));
    random_stage(ctx, "page-clears", ctx.tier.pick(32, 800), page_clear_session_strategy, |ops: &Vec<SOp>, local| run_session(ops, false, local));
}

pub fn replay(case: &Value) -> Check {
    let ops: Vec<SOp> = serde_json::from_value(case.clone()).map_err(|e| Failure::new("bad-replay", e.to_string()))?;
    let big = ops.iter().any(|o| matches!(o, SOp::W(Op::Big(_))));
    let mut l = Local::default();
    run_session(&ops, !big, &mut l)
}
