//! C15 — a shared core is linearizable under concurrent tasks.
//!
//! `SharedCore` runs over the yielding backend (every storage operation suspends once), driven
//! by the harness's own single-threaded scheduler, which owns every interleaving.

use crate::backend::{Disk, Files};
use crate::exec::{block_on, catch};
use crate::hc;
use crate::model::{sel, Blk};
use crate::mutate::PProof;
use crate::ops::*;
use crate::runner::*;
use hypercore::replication::{CoreInfo, CoreMethods, ReplicationMethods, SharedCore};
use hypercore::{Hypercore, Proof, RequestBlock, RequestUpgrade};
use proptest::prelude::*;
use serde::{Deserialize, Serialize};
use serde_json::{json, Value};
use std::cell::{Cell, RefCell};
use std::future::Future;
use std::pin::Pin;
use std::rc::Rc;
use std::sync::atomic::{AtomicBool, Ordering};
use std::sync::Arc;
use std::task::{Context, Poll, Wake, Waker};

#[derive(Clone, Debug, PartialEq, Eq, Hash, Serialize, Deserialize)]
pub enum Call {
    Append(Blk),
    Batch(Vec<Blk>),
    Get(u16),
    Has(u16),
    Info,
    Missing(u16),
    /// create_proof for block sel(x, initial length) with a full upgrade from 0 (writer role)
    CreateProof(u16),
    /// apply prepared honest proof number sel(x, #proofs) (replica role)
    Apply(u16),
    /// clear(i, i + 1), i = sel(x, initial length + 2), through the shared core's inner (public) mutex
    Clear(u16),
    /// apply prepared proof number sel(x, #proofs) with its fork counter raised by one: the core turns it
    /// down (Ok(false)); a refused call is a call like any other and must return in every schedule
    ApplyRefused(u16),
}

impl Call {
    fn mutating(&self) -> bool {
        matches!(self, Call::Append(_) | Call::Batch(_) | Call::Apply(_) | Call::Clear(_))
    }
}

#[derive(Clone, Debug, PartialEq, Eq, Serialize, Deserialize)]
pub enum CallOut {
    Appended(u64, u64),
    Got(Option<Vec<u8>>),
    Has(bool),
    Info(u64, u64, u64, bool),
    Missing(u64),
    Proof(Option<Box<PProof>>),
    Applied(bool),
    Cleared,
    Err(String),
}

#[derive(Clone, Debug, PartialEq, Eq, Hash, Serialize, Deserialize)]
pub struct Program {
    pub replica: bool,
    /// blocks in the shared writer initially, resp. in the (private) writer feeding the replica
    pub initial: u8,
    /// replica role: blocks the replica holds initially (selectors), after a full upgrade
    pub held: Vec<u16>,
    pub tasks: Vec<Vec<Call>>,
    /// scheduler choices (selectors over the ready set); empty = round robin
    pub schedule: Vec<u16>,
}

fn init_blk(i: u64) -> Blk {
    Blk { len: (i % 4 + 1) as u32, fill: (i as u8).wrapping_mul(11).wrapping_add(3) }
}

struct Initial {
    files: Files,
    /// prepared honest proofs (replica role)
    proofs: Vec<Proof>,
    initial_len: u64,
}

/// Build the initial storage of the shared core (and the prepared proofs).
fn build_initial(p: &Program) -> Result<Initial, Failure> {
    let n = p.initial as u64;
    let wdisk = Disk::new();
    let mut w = WSim::create(&wdisk, ObsPolicy::Windowed)?;
    if n > 0 {
        w.apply(&Op::Batch((0..n).map(init_blk).collect()))?;
    }
    if !p.replica {
        drop(w);
        return Ok(Initial { files: wdisk.snapshot(), proofs: vec![], initial_len: n });
    }
    // replica: upgraded to half of the writer's length, holding some blocks; then the writer grows
    let rdisk = Disk::new();
    let mut r = match hc::create(&rdisk, hc::public_only(&hc::test_keypair())) {
        Ok(Ok(c)) => c,
        _ => return Err(Failure::new("harness", "cannot create replica")),
    };
    let apply = |r: &mut Hypercore, w: &mut WSim<Disk>, block: Option<u64>, upgrade: bool| -> Result<(), Failure> {
        let rl = r.info().length;
        let wl = w.model.len();
        let up = if upgrade && wl > rl { Some(RequestUpgrade { start: rl, length: wl - rl }) } else { None };
        let b = match block {
            Some(i) => Some(RequestBlock { index: i, nodes: block_on(r.missing_nodes(i)).map_err(|e| Failure::new("harness", e.to_string()))? }),
            None => None,
        };
        if b.is_none() && up.is_none() {
            return Ok(());
        }
        let proof = block_on(w.core().create_proof(b, None, None, up)).map_err(|e| Failure::new("harness", e.to_string()))?;
        if let Some(proof) = proof {
            block_on(r.verify_and_apply_proof(&proof)).map_err(|e| Failure::new("harness", e.to_string()))?;
        }
        Ok(())
    };
    if n > 0 {
        apply(&mut r, &mut w, None, true)?;
        for h in &p.held {
            let i = sel(*h, n);
            if !r.has(i) {
                apply(&mut r, &mut w, Some(i), false)?;
            }
        }
    }
    // writer grows by 3 blocks; proofs prepared against the replica's current state
    w.apply(&Op::Batch((n..n + 3).map(init_blk).collect()))?;
    let wl = n + 3;
    let rl = r.info().length;
    let mut proofs = vec![];
    let mut mk = |block: Option<u64>, upgrade: bool, r: &mut Hypercore, w: &mut WSim<Disk>| {
        let up = if upgrade { Some(RequestUpgrade { start: rl, length: wl - rl }) } else { None };
        let b = block.map(|i| RequestBlock { index: i, nodes: block_on(r.missing_nodes(i)).unwrap_or(0) });
        if let Ok(Some(p)) = block_on(w.core().create_proof(b, None, None, up)) {
            proofs.push(p);
        }
    };
    mk(None, true, &mut r, &mut w);
    mk(Some(wl - 1), true, &mut r, &mut w);
    mk(Some(n), true, &mut r, &mut w);
    for i in 0..n.min(4) {
        if !r.has(i) {
            mk(Some(i), false, &mut r, &mut w);
        }
    }
    drop(r);
    Ok(Initial { files: rdisk.snapshot(), proofs, initial_len: n })
}

struct FlagWaker(AtomicBool);
impl Wake for FlagWaker {
    fn wake(self: Arc<Self>) {
        self.0.store(true, Ordering::SeqCst);
    }
    fn wake_by_ref(self: &Arc<Self>) {
        self.0.store(true, Ordering::SeqCst);
    }
}

struct YieldNow(bool);
impl Future for YieldNow {
    type Output = ();
    fn poll(mut self: Pin<&mut Self>, cx: &mut Context<'_>) -> Poll<()> {
        if self.0 {
            Poll::Ready(())
        } else {
            self.0 = true;
            cx.waker().wake_by_ref();
            Poll::Pending
        }
    }
}

#[derive(Clone, Debug)]
pub struct Rec {
    pub task: usize,
    pub ci: usize,
    pub call: Call,
    pub start: u64,
    pub end: u64,
    pub out: CallOut,
    pub tag_start: usize,
    pub tag_end: usize,
}

struct Shared {
    step: Cell<u64>,
    recs: RefCell<Vec<Rec>>,
    /// per task: (in a call, storage ops issued by that call so far)
    in_call: RefCell<Vec<bool>>,
}

async fn exec_shared(core: &SharedCore, call: &Call, init: &Initial) -> CallOut {
    let len0 = init.initial_len;
    match call {
        Call::Append(b) => match core.append(&b.bytes()).await {
            Ok(o) => CallOut::Appended(o.length, o.byte_length),
            Err(e) => CallOut::Err(e.to_string()),
        },
        Call::Batch(bs) => {
            let data: Vec<Vec<u8>> = bs.iter().map(|b| b.bytes()).collect();
            match core.append_batch(data).await {
                Ok(o) => CallOut::Appended(o.length, o.byte_length),
                Err(e) => CallOut::Err(e.to_string()),
            }
        }
        Call::Get(x) => match core.get(sel(*x, len0 + 6)).await {
            Ok(v) => CallOut::Got(v),
            Err(e) => CallOut::Err(e.to_string()),
        },
        Call::Has(x) => CallOut::Has(core.has(sel(*x, len0 + 6)).await),
        Call::Info => {
            let i = core.info().await;
            CallOut::Info(i.length, i.byte_length, i.contiguous_length, i.writeable)
        }
        Call::Missing(x) => match core.missing_nodes(sel(*x, len0 + 6)).await {
            Ok(v) => CallOut::Missing(v),
            Err(e) => CallOut::Err(e.to_string()),
        },
        Call::CreateProof(x) => {
            if len0 == 0 {
                return CallOut::Proof(None);
            }
            let i = sel(*x, len0);
            match core.create_proof(Some(RequestBlock { index: i, nodes: 0 }), None, None, Some(RequestUpgrade { start: 0, length: len0 })).await {
                Ok(p) => CallOut::Proof(p.map(|p| Box::new(PProof::from_proof(&p)))),
                Err(e) => CallOut::Err(e.to_string()),
            }
        }
        Call::Apply(x) => {
            if init.proofs.is_empty() {
                return CallOut::Applied(false);
            }
            let p = &init.proofs[sel(*x, init.proofs.len() as u64) as usize];
            match core.verify_and_apply_proof(p).await {
                Ok(b) => CallOut::Applied(b),
                Err(e) => CallOut::Err(e.to_string()),
            }
        }
        Call::ApplyRefused(x) => {
            if init.proofs.is_empty() {
                return CallOut::Applied(false);
            }
            let mut p = init.proofs[sel(*x, init.proofs.len() as u64) as usize].clone();
            p.fork += 1;
            match core.verify_and_apply_proof(&p).await {
                Ok(b) => CallOut::Applied(b),
                Err(e) => CallOut::Err(e.to_string()),
            }
        }
        Call::Clear(x) => {
            let i = sel(*x, len0 + 2);
            let mut guard = core.0.lock().await;
            match guard.clear(i, i + 1).await {
                Ok(()) => CallOut::Cleared,
                Err(e) => CallOut::Err(hypercore::replication::CoreMethodsError::from(e).to_string()),
            }
        }
    }
}

/// Same call on a plain (unshared) core, for the sequential replay.
fn exec_plain(core: &mut Hypercore, call: &Call, init: &Initial) -> CallOut {
    let len0 = init.initial_len;
    match call {
        Call::Append(b) => match block_on(core.append(&b.bytes())) {
            Ok(o) => CallOut::Appended(o.length, o.byte_length),
            Err(e) => CallOut::Err(hypercore::replication::CoreMethodsError::from(e).to_string()),
        },
        Call::Batch(bs) => {
            let data: Vec<Vec<u8>> = bs.iter().map(|b| b.bytes()).collect();
            match block_on(core.append_batch(data)) {
                Ok(o) => CallOut::Appended(o.length, o.byte_length),
                Err(e) => CallOut::Err(hypercore::replication::CoreMethodsError::from(e).to_string()),
            }
        }
        Call::Get(x) => match block_on(core.get(sel(*x, len0 + 6))) {
            Ok(v) => CallOut::Got(v),
            Err(e) => CallOut::Err(hypercore::replication::CoreMethodsError::from(e).to_string()),
        },
        Call::Has(x) => CallOut::Has(core.has(sel(*x, len0 + 6))),
        Call::Info => {
            let i = core.info();
            CallOut::Info(i.length, i.byte_length, i.contiguous_length, i.writeable)
        }
        Call::Missing(x) => match block_on(core.missing_nodes(sel(*x, len0 + 6))) {
            Ok(v) => CallOut::Missing(v),
            Err(e) => CallOut::Err(hypercore::replication::ReplicationMethodsError::from(e).to_string()),
        },
        Call::CreateProof(x) => {
            if len0 == 0 {
                return CallOut::Proof(None);
            }
            let i = sel(*x, len0);
            match block_on(core.create_proof(Some(RequestBlock { index: i, nodes: 0 }), None, None, Some(RequestUpgrade { start: 0, length: len0 }))) {
                Ok(p) => CallOut::Proof(p.map(|p| Box::new(PProof::from_proof(&p)))),
                Err(e) => CallOut::Err(hypercore::replication::ReplicationMethodsError::from(e).to_string()),
            }
        }
        Call::Apply(x) => {
            if init.proofs.is_empty() {
                return CallOut::Applied(false);
            }
            let p = &init.proofs[sel(*x, init.proofs.len() as u64) as usize];
            match block_on(core.verify_and_apply_proof(p)) {
                Ok(b) => CallOut::Applied(b),
                Err(e) => CallOut::Err(hypercore::replication::ReplicationMethodsError::from(e).to_string()),
            }
        }
        Call::ApplyRefused(x) => {
            if init.proofs.is_empty() {
                return CallOut::Applied(false);
            }
            let mut p = init.proofs[sel(*x, init.proofs.len() as u64) as usize].clone();
            p.fork += 1;
            match block_on(core.verify_and_apply_proof(&p)) {
                Ok(b) => CallOut::Applied(b),
                Err(e) => CallOut::Err(hypercore::replication::ReplicationMethodsError::from(e).to_string()),
            }
        }
        Call::Clear(x) => {
            let i = sel(*x, len0 + 2);
            match block_on(core.clear(i, i + 1)) {
                Ok(()) => CallOut::Cleared,
                Err(e) => CallOut::Err(hypercore::replication::CoreMethodsError::from(e).to_string()),
            }
        }
    }
}

pub struct Execution {
    pub recs: Vec<Rec>,
    pub choices: Vec<(usize, usize)>, // (ready set size, picked position) per step
    pub final_obs: hc::Obs,
    pub switches_mid_call: u32,
    pub steps: u64,
    pub tagged: Vec<crate::backend::Tagged>,
}

/// Run the program under the given scheduler policy. `choose(ready)` returns a position in `ready`.
///
/// `fair`: whenever a task blocks on the core's lock the scheduler sleeps 550 µs of wall-clock
/// time. async_lock's mutex lets a new `lock()` barge in front of waiters until a waiter has
/// been waiting for more than 500 µs; from then on acquisitions are handed over in FIFO order.
/// Without the sleep an unlock immediately followed by a second `lock()` in the same poll can
/// never be preempted on a single thread (on a multi-threaded executor it can); with it, every
/// lock acquisition while another task waits becomes a real preemption point.
fn execute(p: &Program, init: &Initial, choose: &mut dyn FnMut(&[usize]) -> usize, fair: bool) -> Result<Execution, Failure> {
    let disk = Disk::from_files(init.files.clone());
    let core = match hc::open(&disk) {
        Ok(Ok(c)) => c,
        Ok(Err(e)) => return Err(Failure::new("harness", format!("cannot open initial storage: {e}"))),
        Err(pn) => return Err(panic_failure("opening the initial storage", &pn)),
    };
    let shared_core = SharedCore::from_hypercore(core);
    disk.0.yielding.store(true, Ordering::SeqCst);
    let ntasks = p.tasks.len();
    let shared = Rc::new(Shared { step: Cell::new(0), recs: RefCell::new(vec![]), in_call: RefCell::new(vec![false; ntasks]) });
    let mut futs: Vec<Option<Pin<Box<dyn Future<Output = ()> + '_>>>> = vec![];
    for (t, calls) in p.tasks.iter().enumerate() {
        let core = shared_core.clone();
        let shared = shared.clone();
        let disk = disk.clone();
        futs.push(Some(Box::pin(async move {
            for (ci, call) in calls.iter().enumerate() {
                YieldNow(false).await;
                let start = shared.step.get();
                let tag_start = disk.0.tagged.lock().unwrap().len();
                shared.in_call.borrow_mut()[t] = true;
                let out = exec_shared(&core, call, init).await;
                shared.in_call.borrow_mut()[t] = false;
                let end = shared.step.get();
                let tag_end = disk.0.tagged.lock().unwrap().len();
                shared.recs.borrow_mut().push(Rec { task: t, ci, call: call.clone(), start, end, out, tag_start, tag_end });
            }
        })));
    }
    let flags: Vec<Arc<FlagWaker>> = (0..ntasks).map(|_| Arc::new(FlagWaker(AtomicBool::new(true)))).collect();
    let mut choices = vec![];
    let mut switches_mid_call = 0u32;
    let mut last: Option<usize> = None;
    let mut steps = 0u64;
    loop {
        let ready: Vec<usize> = (0..ntasks).filter(|t| futs[*t].is_some() && flags[*t].0.load(Ordering::SeqCst)).collect();
        if ready.is_empty() {
            if futs.iter().all(|f| f.is_none()) {
                break;
            }
            return Err(Failure::new("deadlock", format!("no task is ready but {} have not finished (lost wake-up or deadlock) after {steps} steps", futs.iter().filter(|f| f.is_some()).count())));
        }
        let pos = choose(&ready).min(ready.len() - 1);
        let t = ready[pos];
        choices.push((ready.len(), pos));
        if let Some(l) = last {
            if l != t && futs[l].is_some() && shared.in_call.borrow()[l] {
                // switching away from a task that is inside a call (it holds, or waits for, the lock)
                let tg = disk.0.tagged.lock().unwrap();
                if tg.last().map(|x| x.task as usize == l).unwrap_or(false) {
                    switches_mid_call += 1;
                }
            }
        }
        last = Some(t);
        flags[t].0.store(false, Ordering::SeqCst);
        disk.0.cur_task.store(t as u32, Ordering::SeqCst);
        steps += 1;
        shared.step.set(steps);
        let waker = Waker::from(flags[t].clone());
        let mut cx = Context::from_waker(&waker);
        let fut = futs[t].as_mut().unwrap();
        let r = catch(|| fut.as_mut().poll(&mut cx)).map_err(|pn| panic_failure(&format!("polling task {t} at step {steps}"), &pn))?;
        if r.is_ready() {
            futs[t] = None;
        } else if fair && !flags[t].0.load(Ordering::SeqCst) {
            // blocked (on the lock): let its waiting time exceed the mutex's starvation threshold
            std::thread::sleep(std::time::Duration::from_micros(550));
        }
        if steps > 100_000 {
            return Err(Failure::new("livelock", "more than 100000 scheduler steps".to_string()));
        }
    }
    drop(futs);
    disk.0.yielding.store(false, Ordering::SeqCst);
    let tagged = disk.0.tagged.lock().unwrap().clone();
    // final observation through the shared core's inner core
    let upto = init.initial_len + 3 + p.tasks.iter().flatten().map(|c| match c {
        Call::Append(_) => 1,
        Call::Batch(b) => b.len() as u64,
        _ => 0,
    }).sum::<u64>() + 4;
    let final_obs = {
        let mut guard = block_on(shared_core.0.lock());
        hc::observe(&mut guard, upto, false).map_err(|pn| panic_failure("final observation", &pn))?
    };
    let recs = shared.recs.borrow().clone();
    Ok(Execution { recs, choices, final_obs, switches_mid_call, steps, tagged })
}

/// Sequential replay of the calls in the given order on a plain core.
fn replay_order(init: &Initial, order: &[&Rec], upto: u64) -> Result<(Vec<CallOut>, hc::Obs), Failure> {
    let disk = Disk::from_files(init.files.clone());
    let mut core = match hc::open(&disk) {
        Ok(Ok(c)) => c,
        _ => return Err(Failure::new("harness", "cannot open initial storage for the sequential replay")),
    };
    let mut outs = vec![];
    for r in order {
        let o = catch(|| exec_plain(&mut core, &r.call, init)).map_err(|pn| panic_failure("sequential replay", &pn))?;
        outs.push(o);
    }
    let obs = hc::observe(&mut core, upto, false).map_err(|pn| panic_failure("sequential replay observation", &pn))?;
    Ok((outs, obs))
}

/// Search for any sequential order consistent with per-task order and real-time precedence.
fn search_linearization(init: &Initial, recs: &[Rec], final_obs: &hc::Obs, upto: u64) -> Result<bool, Failure> {
    fn rec_search(init: &Initial, recs: &[Rec], chosen: &mut Vec<usize>, used: &mut Vec<bool>, final_obs: &hc::Obs, upto: u64, budget: &mut u32) -> Result<bool, Failure> {
        if *budget == 0 {
            return Ok(false);
        }
        if chosen.len() == recs.len() {
            *budget -= 1;
            let order: Vec<&Rec> = chosen.iter().map(|i| &recs[*i]).collect();
            let (outs, obs) = replay_order(init, &order, upto)?;
            return Ok(outs.iter().zip(order.iter()).all(|(o, r)| *o == r.out) && obs.diff(final_obs).is_none());
        }
        for i in 0..recs.len() {
            if used[i] {
                continue;
            }
            // all calls that precede i (same task earlier, or finished before i started) must be chosen
            let ok = (0..recs.len()).all(|j| {
                if j == i || used[j] {
                    return true;
                }
                let before = (recs[j].task == recs[i].task && recs[j].ci < recs[i].ci) || recs[j].end < recs[i].start;
                !before
            });
            if !ok {
                continue;
            }
            // prune: results of the prefix must match
            chosen.push(i);
            used[i] = true;
            let order: Vec<&Rec> = chosen.iter().map(|k| &recs[*k]).collect();
            *budget = budget.saturating_sub(1);
            let (outs, _) = replay_order(init, &order, upto)?;
            if outs.iter().zip(order.iter()).all(|(o, r)| *o == r.out) && rec_search(init, recs, chosen, used, final_obs, upto, budget)? {
                return Ok(true);
            }
            chosen.pop();
            used[i] = false;
        }
        Ok(false)
    }
    let mut budget = 20_000u32;
    rec_search(init, recs, &mut vec![], &mut vec![false; recs.len()], final_obs, upto, &mut budget)
}

/// The three oracles on one execution.
fn check_execution(p: &Program, init: &Initial, ex: &Execution, local: &mut Local) -> Check {
    let total_calls: usize = p.tasks.iter().map(|t| t.len()).sum();
    if ex.recs.len() != total_calls {
        return Err(Failure::new("calls-lost", format!("{} of {} calls completed", ex.recs.len(), total_calls)));
    }
    // (1) atomicity of effects: the storage operations of one call are never interleaved with another call's
    for r in &ex.recs {
        let mine: Vec<usize> = (r.tag_start..r.tag_end).filter(|i| ex.tagged[*i].task as usize == r.task).collect();
        if let (Some(first), Some(last)) = (mine.first(), mine.last()) {
            for i in *first..=*last {
                if ex.tagged[i].task as usize != r.task {
                    return Err(Failure::new(
                        "interleaved-storage-operations",
                        format!(
                            "storage operation #{i} ({} {}) of task {} ran between the storage operations of task {}'s call {:?} (ops {}..={})",
                            ex.tagged[i].kind, crate::backend::STORE_NAMES[ex.tagged[i].store], ex.tagged[i].task, r.task, r.call, first, last
                        ),
                    ));
                }
            }
        }
    }
    // (3) model-level sanity: append outcomes are gap-free and strictly increasing in completion order
    let upto = ex.final_obs.blocks.len() as u64;
    let cleared: Vec<u64> = p.tasks.iter().flatten().filter_map(|c| if let Call::Clear(x) = c { Some(sel(*x, init.initial_len + 2)) } else { None }).collect();
    let mut len = init.initial_len + if p.replica { 0 } else { 0 };
    if !p.replica {
        for r in &ex.recs {
            let n = match &r.call {
                Call::Append(_) => 1u64,
                Call::Batch(b) => b.len() as u64,
                _ => continue,
            };
            match &r.out {
                CallOut::Appended(l, _) => {
                    if *l != len + n {
                        return Err(Failure::new("append-outcomes-not-gap-free", format!("task {} call {:?} reported length {l}, expected {} (previous {len} + {n})", r.task, r.call, len + n)));
                    }
                    // the task's blocks are readable at the implied indices
                    let blocks: Vec<Vec<u8>> = match &r.call {
                        Call::Append(b) => vec![b.bytes()],
                        Call::Batch(bs) => bs.iter().map(|b| b.bytes()).collect(),
                        _ => vec![],
                    };
                    for (k, b) in blocks.iter().enumerate() {
                        let idx = len + k as u64;
                        if cleared.contains(&idx) {
                            continue;
                        }
                        let got = ex.final_obs.blocks.iter().find(|x| x.0 == idx).map(|x| x.2.clone());
                        if got != Some(Ok(Some(b.clone()))) {
                            return Err(Failure::new("appended-block-not-readable", format!("task {}'s block for index {idx} reads back as {:?}", r.task, got.map(|g| hc::brief_get(&g)))));
                        }
                    }
                    len = *l;
                }
                CallOut::Err(e) => return Err(Failure::new("append-error", format!("task {} call {:?} failed: {e}", r.task, r.call))),
                _ => {}
            }
        }
    }
    // (2) linearizability: completion order first, otherwise any order consistent with real time
    let order: Vec<&Rec> = ex.recs.iter().collect();
    let (outs, obs) = replay_order(init, &order, upto)?;
    let same = outs.iter().zip(order.iter()).all(|(o, r)| *o == r.out) && obs.diff(&ex.final_obs).is_none();
    if !same {
        local.class("completion_order_not_a_linearization");
        if !search_linearization(init, &ex.recs, &ex.final_obs, upto)? {
            let firstdiff = outs.iter().zip(order.iter()).position(|(o, r)| *o != r.out);
            let d = match firstdiff {
                Some(i) => format!("call {:?} of task {} returned {:?} concurrently but {:?} in the sequential replay (completion order)", order[i].call, order[i].task, truncate(&format!("{:?}", order[i].out), 200), truncate(&format!("{:?}", outs[i]), 200)),
                None => format!("final state differs: {}", obs.diff(&ex.final_obs).unwrap_or_default()),
            };
            return Err(Failure::new("not-linearizable", format!("no sequential order of the {} calls consistent with real-time precedence reproduces the concurrent results: {d}", ex.recs.len())));
        }
    }
    // classification
    let mutating_overlap = {
        let m: Vec<&Rec> = ex.recs.iter().filter(|r| r.call.mutating()).collect();
        m.iter().enumerate().any(|(i, a)| m.iter().skip(i + 1).any(|b| a.task != b.task && a.start <= b.end && b.start <= a.end))
    };
    if ex.switches_mid_call > 0 {
        local.class("schedules_with_switch_inside_a_call");
    }
    if mutating_overlap {
        local.class("schedules_with_overlapping_mutating_calls");
    }
    if ex.switches_mid_call > 0 && mutating_overlap {
        let sig: Vec<(usize, usize)> = ex.recs.iter().map(|r| (r.task, r.ci)).collect();
        local.nontrivial(&(hash_of(p), sig, ex.choices.iter().map(|c| c.1).collect::<Vec<_>>()));
    }
    local.class("schedules_run");
    Ok(())
}

/// One program under one seeded-random (or recorded) schedule.
pub fn run_program(p: &Program, fair: bool, local: &mut Local) -> Check {
    let init = build_initial(p)?;
    let mut k = 0usize;
    let sched = p.schedule.clone();
    let mut choose = |ready: &[usize]| -> usize {
        let c = if sched.is_empty() { k } else { sel(sched[k % sched.len()], ready.len() as u64) as usize };
        k += 1;
        c % ready.len()
    };
    let ex = execute(p, &init, &mut choose, fair)?;
    if fair {
        local.class("fair_lock_schedules_run");
    }
    check_execution(p, &init, &ex, local)
}

/// All schedules of a program by stateless DFS over scheduler choices.
pub fn run_all_schedules(p: &Program, local: &mut Local, cap: u64) -> Check {
    let init = build_initial(p)?;
    local.evals = local.evals.saturating_sub(1);
    // prefix of forced positions; beyond the prefix always position 0; collect branching points
    let mut stack: Vec<Vec<usize>> = vec![vec![]];
    let mut n = 0u64;
    while let Some(prefix) = stack.pop() {
        let mut k = 0usize;
        let pre = prefix.clone();
        let mut choose = |ready: &[usize]| -> usize {
            let c = if k < pre.len() { pre[k] } else { 0 };
            k += 1;
            c.min(ready.len() - 1)
        };
        let ex = execute(p, &init, &mut choose, false)?;
        n += 1;
        local.evals += 1;
        check_execution(p, &init, &ex, local).map_err(|f| Failure::new(f.kind, format!("schedule {:?}: {}", ex.choices.iter().map(|c| c.1).collect::<Vec<_>>(), f.detail)))?;
        // expand: for every step at or beyond the prefix length with more than one ready task, branch to the alternatives
        for (i, (nready, pos)) in ex.choices.iter().enumerate().skip(prefix.len()) {
            for alt in (pos + 1)..*nready {
                let mut np: Vec<usize> = ex.choices[..i].iter().map(|c| c.1).collect();
                np.push(alt);
                stack.push(np);
            }
        }
        if n >= cap {
            local.class("dfs_capped");
            return Ok(());
        }
    }
    local.class("programs_with_all_schedules_explored");
    local.class_n("schedules_in_exhaustive_programs", n);
    Ok(())
}

fn call_strategy(replica: bool) -> BoxedStrategy<Call> {
    if replica {
        prop_oneof![
            6 => any::<u16>().prop_map(Call::Apply),
            1 => any::<u16>().prop_map(Call::ApplyRefused),
            2 => any::<u16>().prop_map(Call::Missing),
            2 => any::<u16>().prop_map(Call::Get),
            1 => any::<u16>().prop_map(Call::Has),
            1 => Just(Call::Info),
            1 => any::<u16>().prop_map(Call::Clear),
        ]
        .boxed()
    } else {
        prop_oneof![
            5 => small_blk_strategy().prop_map(Call::Append),
            3 => prop::collection::vec(small_blk_strategy(), 0..4).prop_map(Call::Batch),
            // more than 64 KiB in one batch (the oplog's flush threshold)
            1 => (any::<u8>(), 2usize..4).prop_map(|(f, k)| Call::Batch((0..k).map(|i| Blk { len: 30_000 + 3_000 * i as u32, fill: f.wrapping_add(i as u8) }).collect())),
            3 => any::<u16>().prop_map(Call::Get),
            1 => any::<u16>().prop_map(Call::Has),
            1 => Just(Call::Info),
            1 => any::<u16>().prop_map(Call::Missing),
            2 => any::<u16>().prop_map(Call::CreateProof),
            2 => any::<u16>().prop_map(Call::Clear),
        ]
        .boxed()
    }
}

pub fn program_strategy() -> impl Strategy<Value = Program> {
    any::<bool>().prop_flat_map(|replica| {
        (
            0u8..7,
            prop::collection::vec(any::<u16>(), 0..3),
            prop::collection::vec(prop::collection::vec(call_strategy(replica), 1..5), 2..5),
            prop::collection::vec(any::<u16>(), 1..64),
        )
            .prop_map(move |(initial, held, tasks, schedule)| Program { replica, initial, held, tasks, schedule })
    })
}

/// Programs of the smallest configuration: 2 tasks x <= 2 calls over a small alphabet.
pub fn small_programs() -> Vec<Program> {
    let walpha = [
        Call::Append(Blk { len: 2, fill: 0x61 }),
        Call::Batch(vec![Blk { len: 1, fill: 0x62 }, Blk { len: 0, fill: 0 }]),
        Call::Get(0x3000),
        Call::Info,
        Call::CreateProof(0),
    ];
    let ralpha = [Call::Apply(0), Call::Apply(0x5000), Call::Apply(0xffff), Call::Get(0x1000), Call::Missing(0x2000), Call::ApplyRefused(0x5000)];
    let mut out = vec![];
    for (replica, alpha) in [(false, &walpha[..]), (true, &ralpha[..])] {
        let mut seqs: Vec<Vec<Call>> = vec![];
        for a in alpha.iter() {
            seqs.push(vec![a.clone()]);
            for b in alpha.iter() {
                seqs.push(vec![a.clone(), b.clone()]);
            }
        }
        for s1 in &seqs {
            for s2 in &seqs {
                // symmetric pairs are the same program up to task renaming; keep one
                if format!("{s1:?}") > format!("{s2:?}") {
                    continue;
                }
                out.push(Program { replica, initial: 2, held: vec![0], tasks: vec![s1.clone(), s2.clone()], schedule: vec![] });
            }
        }
    }
    out
}

pub fn run(ctx: &Ctx) {
    ctx.set_rule(
        "evaluations = (program, schedule) executions of hypercore::replication::SharedCore over a backend in which every storage \
         operation suspends once, driven by the harness's single-threaded scheduler (tasks yield before every call; lock waiters \
         suspend by themselves), so every storage operation and lock acquisition is a preemption point. Oracles per execution: (1) in \
         the task-tagged storage trace the operations of one call are never interleaved with another task's; (2) replaying the calls \
         sequentially in completion order on a plain core over the same initial files gives equal results and final state - if not, \
         every order consistent with per-task order and real-time precedence is searched, a violation is reported only if none \
         reproduces the results; (3) append outcomes are gap-free and each task's blocks are readable at the implied indices. \
         Stage 1: ALL schedules (stateless DFS over scheduler choices) for all programs of 2 tasks x <= 2 calls over a 5-call alphabet \
         (writer and replica role); stage 2: seeded-random programs (2-4 tasks x 1-4 calls, both roles) under seeded-random \
         schedules. Non-trivial = schedule with a switch away from a task in the middle of its call's storage operations and >= 2 \
         mutating calls of different tasks overlapping in real time; distinct = (program, completion order, choices).",
    );
    ctx.assume("only interleavings of async tasks are explored (the harness owns them); OS-thread races are out of scope (crate is forbid(unsafe_code))");
    ctx.assume("async_lock::Mutex consults the wall clock for its fairness path; this can change which waiter wins, never the verdict of the oracles");
    let progs = small_programs();
    let stride = ctx.tier.pick(3u64, 1u64);
    let idx: Vec<usize> = (0..progs.len()).filter(|i| (*i as u64 + ctx.seed) % stride == 0).collect();
    let n = idx.len() as u64;
    indexed_stage(ctx, "all-schedules-small-programs", n, |i| progs[idx[i as usize]].clone(), |p, local| run_all_schedules(p, local, 20_000));
    ctx.extra("exhaustive_stage", json!({"small_programs_total": progs.len(), "explored_this_run": n, "all_schedules_per_program": true, "exhaustive": stride == 1}));
    random_stage(ctx, "random-programs", ctx.tier.pick(6_000, 500_000), program_strategy, |p: &Program, local| run_program(p, false, local));
    random_stage(ctx, "random-programs-fair-lock", ctx.tier.pick(3_000, 150_000), program_strategy, |p: &Program, local| run_program(p, true, local));
}

pub fn replay(case: &Value) -> Check {
    let p: Program = serde_json::from_value(case.clone()).map_err(|e| Failure::new("bad-replay", e.to_string()))?;
    let mut l = Local::default();
    if p.schedule.is_empty() {
        run_all_schedules(&p, &mut l, 20_000)
    } else {
        run_program(&p, false, &mut l)?;
        run_program(&p, true, &mut l)
    }
}
