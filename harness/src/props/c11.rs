//! C11 — wire messages round-trip exactly and match the compact-encoding spec.

use crate::exec::catch;
use crate::refstore::{put_buf, put_uint};
use crate::runner::*;
use compact_encoding::CompactEncoding;
use hypercore::{DataBlock, DataHash, DataSeek, DataUpgrade, Node, RequestBlock, RequestSeek, RequestUpgrade};
use proptest::prelude::*;
use serde::{Deserialize, Serialize};
use serde_json::{json, Value};

pub const BOUNDARY_INTS: [u64; 12] = [0, 1, 251, 252, 253, 254, 65535, 65536, (1 << 32) - 1, 1 << 32, 1 << 63, u64::MAX];

#[derive(Clone, Debug, PartialEq, Eq, Hash, Serialize, Deserialize)]
pub struct WNode {
    pub index: u64,
    pub length: u64,
    pub fill: u8,
}

#[derive(Clone, Debug, PartialEq, Eq, Hash, Serialize, Deserialize)]
pub enum Msg {
    Node(WNode),
    RequestBlock { index: u64, nodes: u64 },
    RequestSeek { bytes: u64 },
    RequestUpgrade { start: u64, length: u64 },
    DataBlock { index: u64, value_len: u32, value_fill: u8, nodes: Vec<WNode> },
    DataHash { index: u64, nodes: Vec<WNode> },
    DataSeek { bytes: u64, nodes: Vec<WNode> },
    DataUpgrade { start: u64, length: u64, nodes: Vec<WNode>, additional_nodes: Vec<WNode>, sig_len: u32, sig_fill: u8 },
    /// A value that cannot be put on the wire: the node at `pos` carries a hash of `hash_len` != 32
    /// bytes. `carrier`: 0 Node, 1 DataBlock, 2 DataHash, 3 DataSeek, 4 DataUpgrade.nodes,
    /// 5 DataUpgrade.additional_nodes. Encoding must fail, or else keep all of its promises.
    BadHash { carrier: u8, pos: u8, hash_len: u8, nodes: Vec<WNode> },
}

fn hash_of_fill(f: u8) -> Vec<u8> {
    match f {
        // the hash of a blank tree slot (all zero), nearly-zero hashes, all ones
        0 => vec![0u8; 32],
        1 => (0..32u8).map(|i| (i == 31) as u8).collect(),
        2 => (0..32u8).map(|i| (i == 0) as u8).collect(),
        255 => vec![0xffu8; 32],
        _ => (0..32u8).map(|i| f.wrapping_add(i.wrapping_mul(7)) | 1).collect(),
    }
}
fn bytes_of(len: u32, fill: u8) -> Vec<u8> {
    (0..len).map(|i| fill.wrapping_add(i as u8)).collect()
}

// ---- independent encoder (RefWire)
fn ref_node(o: &mut Vec<u8>, n: &WNode) {
    put_uint(o, n.index);
    put_uint(o, n.length);
    o.extend_from_slice(&hash_of_fill(n.fill));
}
fn ref_nodes(o: &mut Vec<u8>, v: &[WNode]) {
    put_uint(o, v.len() as u64);
    v.iter().for_each(|n| ref_node(o, n));
}
pub fn ref_encode(m: &Msg) -> Vec<u8> {
    let mut o = vec![];
    match m {
        Msg::Node(n) => ref_node(&mut o, n),
        Msg::RequestBlock { index, nodes } => {
            put_uint(&mut o, *index);
            put_uint(&mut o, *nodes);
        }
        Msg::RequestSeek { bytes } => put_uint(&mut o, *bytes),
        Msg::RequestUpgrade { start, length } => {
            put_uint(&mut o, *start);
            put_uint(&mut o, *length);
        }
        Msg::DataBlock { index, value_len, value_fill, nodes } => {
            put_uint(&mut o, *index);
            put_buf(&mut o, &bytes_of(*value_len, *value_fill));
            ref_nodes(&mut o, nodes);
        }
        Msg::DataHash { index, nodes } => {
            put_uint(&mut o, *index);
            ref_nodes(&mut o, nodes);
        }
        Msg::DataSeek { bytes, nodes } => {
            put_uint(&mut o, *bytes);
            ref_nodes(&mut o, nodes);
        }
        Msg::BadHash { .. } => {}
        Msg::DataUpgrade { start, length, nodes, additional_nodes, sig_len, sig_fill } => {
            put_uint(&mut o, *start);
            put_uint(&mut o, *length);
            ref_nodes(&mut o, nodes);
            ref_nodes(&mut o, additional_nodes);
            put_buf(&mut o, &bytes_of(*sig_len, *sig_fill));
        }
    }
    o
}

fn mk_node(n: &WNode) -> Node {
    Node::new(n.index, hash_of_fill(n.fill), n.length)
}
fn mk_nodes(v: &[WNode]) -> Vec<Node> {
    v.iter().map(mk_node).collect()
}

/// The four checks for one concrete value of a message type.
fn check_value<T: CompactEncoding + PartialEq + std::fmt::Debug>(v: &T, reference: &[u8], what: &str) -> Check {
    let n = match v.encoded_size() {
        Ok(n) => n,
        Err(e) => return Err(Failure::new("encoded-size-error", format!("{what}: encoded_size() failed: {e}"))),
    };
    if n != reference.len() {
        return Err(Failure::new("encoded-size-mismatch", format!("{what}: encoded_size() = {n} but the compact-encoding of the fields has {} bytes", reference.len())));
    }
    let mut buf = vec![0xAAu8; n + 16];
    let rest_len = match v.encode(&mut buf) {
        Ok(rest) => rest.len(),
        Err(e) => return Err(Failure::new("encode-error", format!("{what}: encode failed: {e}"))),
    };
    if rest_len != 16 {
        return Err(Failure::new("encode-consumed-mismatch", format!("{what}: encode consumed {} bytes, announced {n}", buf.len() - rest_len)));
    }
    if buf[..n] != *reference {
        let pos = buf[..n].iter().zip(reference).position(|(a, b)| a != b).unwrap_or(0);
        return Err(Failure::new("encoding-differs-from-spec", format!("{what}: encoded bytes differ from the independent encoder at byte {pos}: {:02x?} vs {:02x?}", &buf[pos..(pos + 8).min(n)], &reference[pos..(pos + 8).min(n)])));
    }
    if buf[n..].iter().any(|b| *b != 0xAA) {
        return Err(Failure::new("encode-wrote-beyond", format!("{what}: encode wrote beyond the announced size")));
    }
    // decode exact
    match T::decode(&buf[..n]) {
        Ok((d, rest)) => {
            if !rest.is_empty() {
                return Err(Failure::new("decode-left-over", format!("{what}: decoding the exact encoding left {} bytes", rest.len())));
            }
            if d != *v {
                return Err(Failure::new("roundtrip-mismatch", format!("{what}: decode(encode(v)) = {d:?}")));
            }
        }
        Err(e) => return Err(Failure::new("decode-error", format!("{what}: decoding its own encoding failed: {e}"))),
    }
    // decode with trailing garbage
    match T::decode(&buf) {
        Ok((d, rest)) => {
            if rest.len() != 16 || rest.iter().any(|b| *b != 0xAA) {
                return Err(Failure::new("decode-garbage-consumed", format!("{what}: decoding with trailing bytes left {} of 16", rest.len())));
            }
            if d != *v {
                return Err(Failure::new("roundtrip-mismatch", format!("{what}: decode with trailing bytes = {d:?}")));
            }
        }
        Err(e) => return Err(Failure::new("decode-error", format!("{what}: decoding with trailing bytes failed: {e}"))),
    }
    // every strict prefix is an error, never a panic
    for k in 0..n {
        // long encodings (> 4 KiB): both ends and every 61st prefix in between
        if n > 4096 && k > 700 && k + 700 < n && k % 61 != 0 {
            continue;
        }
        let r = catch(|| T::decode(&buf[..k]).map(|(d, rest)| (format!("{d:?}"), rest.len())));
        match r {
            Ok(Err(_)) => {}
            Ok(Ok((d, rest))) => {
                return Err(Failure::new("prefix-decoded", format!("{what}: the strict prefix of {k}/{n} bytes decoded to {d} (rest {rest})")));
            }
            Err(p) => return Err(Failure::new(format!("prefix-panic:{}", p.signature()), format!("{what}: decoding the strict prefix of {k}/{n} bytes panicked: {}", p.0))),
        }
    }
    Ok(())
}

/// A value with a node hash that is not 32 bytes: encode may refuse it; if it accepts it, the
/// announced size, the bytes consumed and the round trip must still agree.
fn check_unencodable<T: CompactEncoding + PartialEq + std::fmt::Debug>(v: &T, what: &str) -> Check {
    let n = match v.encoded_size() {
        Ok(n) => n,
        Err(_) => return Ok(()),
    };
    let mut buf = vec![0xAAu8; n + 80];
    let total = buf.len();
    let rest_len = match v.encode(&mut buf) {
        Ok(rest) => rest.len(),
        Err(_) => return Ok(()),
    };
    if total - rest_len != n {
        return Err(Failure::new("encode-consumed-mismatch", format!("{what}: encode succeeded, consumed {} bytes, announced {n}", total - rest_len)));
    }
    match T::decode(&buf[..n]) {
        Ok((d, rest)) if rest.is_empty() && d == *v => Ok(()),
        Ok((d, rest)) => Err(Failure::new("roundtrip-mismatch", format!("{what}: encode succeeded but decode gives {d:?} (rest {})", rest.len()))),
        Err(e) => Err(Failure::new("decode-error", format!("{what}: encode succeeded but decoding its output failed: {e}"))),
    }
}

fn check_bad_hash(carrier: u8, pos: u8, hash_len: u8, nodes: &[WNode], what: &str) -> Check {
    let mut w: Vec<WNode> = nodes.to_vec();
    if w.is_empty() {
        w.push(WNode { index: 1, length: 2, fill: 3 });
    }
    let mut v = mk_nodes(&w);
    let pos = pos as usize % v.len();
    let hl = if hash_len == 32 { 33 } else { hash_len } as usize;
    v[pos] = Node::new(w[pos].index, (0..hl).map(|i| i as u8 | 1).collect(), w[pos].length);
    match carrier % 6 {
        0 => check_unencodable(&v.swap_remove(pos), what),
        1 => check_unencodable(&DataBlock { index: 7, value: vec![1, 2, 3], nodes: v }, what),
        2 => check_unencodable(&DataHash { index: 7, nodes: v }, what),
        3 => check_unencodable(&DataSeek { bytes: 7, nodes: v }, what),
        4 => check_unencodable(&DataUpgrade { start: 0, length: 9, nodes: v, additional_nodes: vec![], signature: vec![5; 64] }, what),
        _ => check_unencodable(&DataUpgrade { start: 0, length: 9, nodes: vec![], additional_nodes: v, signature: vec![5; 64] }, what),
    }
}

pub fn check_msg(m: &Msg, local: &mut Local) -> Check {
    if let Msg::BadHash { carrier, pos, hash_len, nodes } = m {
        let what = truncate(&format!("{m:?}"), 300);
        local.class("values_with_a_node_hash_that_is_not_32_bytes");
        local.nontrivial(m);
        return match catch(|| check_bad_hash(*carrier, *pos, *hash_len, nodes, &what)) {
            Ok(c) => c,
            Err(p) => Err(Failure::new(format!("panic:{}", p.signature()), format!("{what}: encoding the value panicked: {}", p.0))),
        };
    }
    let reference = ref_encode(m);
    let what = format!("{m:?}");
    let what = truncate(&what, 300);
    let built = catch(|| -> Check {
        match m {
            Msg::Node(n) => check_value(&mk_node(n), &reference, &what),
            Msg::RequestBlock { index, nodes } => check_value(&RequestBlock { index: *index, nodes: *nodes }, &reference, &what),
            Msg::RequestSeek { bytes } => check_value(&RequestSeek { bytes: *bytes }, &reference, &what),
            Msg::RequestUpgrade { start, length } => check_value(&RequestUpgrade { start: *start, length: *length }, &reference, &what),
            Msg::DataBlock { index, value_len, value_fill, nodes } => {
                check_value(&DataBlock { index: *index, value: bytes_of(*value_len, *value_fill), nodes: mk_nodes(nodes) }, &reference, &what)
            }
            Msg::DataHash { index, nodes } => check_value(&DataHash { index: *index, nodes: mk_nodes(nodes) }, &reference, &what),
            Msg::DataSeek { bytes, nodes } => check_value(&DataSeek { bytes: *bytes, nodes: mk_nodes(nodes) }, &reference, &what),
            Msg::BadHash { .. } => Ok(()),
            Msg::DataUpgrade { start, length, nodes, additional_nodes, sig_len, sig_fill } => check_value(
                &DataUpgrade { start: *start, length: *length, nodes: mk_nodes(nodes), additional_nodes: mk_nodes(additional_nodes), signature: bytes_of(*sig_len, *sig_fill) },
                &reference,
                &what,
            ),
        }
    });
    let r = match built {
        Ok(c) => c,
        Err(p) => Err(Failure::new(format!("panic:{}", p.signature()), format!("{what}: building/encoding/decoding the value panicked: {}", p.0))),
    };
    local.class_n("strict_prefixes_decoded", reference.len() as u64);
    let nontrivial = match m {
        Msg::Node(n) => n.index >= 253 || n.length >= 253,
        Msg::RequestBlock { index, nodes } => *index >= 253 || *nodes >= 253,
        Msg::RequestSeek { bytes } => *bytes >= 253,
        Msg::RequestUpgrade { start, length } => *start >= 253 || *length >= 253,
        Msg::DataBlock { value_len, nodes, index, .. } => *value_len > 0 || !nodes.is_empty() || *index >= 253,
        Msg::DataHash { nodes, index } => !nodes.is_empty() || *index >= 253,
        Msg::DataSeek { nodes, bytes } => !nodes.is_empty() || *bytes >= 253,
        Msg::BadHash { .. } => true,
        Msg::DataUpgrade { nodes, additional_nodes, sig_len, start, length, .. } => !nodes.is_empty() || !additional_nodes.is_empty() || *sig_len > 0 || *start >= 253 || *length >= 253,
    };
    if nontrivial {
        local.nontrivial(m);
    }
    r
}

fn int_strategy() -> impl Strategy<Value = u64> {
    prop_oneof![
        6 => (0usize..BOUNDARY_INTS.len()).prop_map(|i| BOUNDARY_INTS[i]),
        2 => any::<u64>(),
        2 => 0u64..70000,
        1 => (0usize..BOUNDARY_INTS.len(), -2i64..=2).prop_map(|(i, d)| BOUNDARY_INTS[i].wrapping_add(d as u64)),
        // every power of two and its neighbours (all-ones patterns, sign bits, shift widths)
        3 => (0u32..64, -1i64..=1).prop_map(|(k, d)| (1u64 << k).wrapping_add(d as u64)),
    ]
}
fn len_strategy() -> impl Strategy<Value = u32> {
    prop_oneof![
        40 => prop_oneof![Just(0u32), Just(1), Just(252), Just(253), Just(300), 0u32..=300],
        // the 16-bit boundary of the length prefix (rare: these values are 64 KiB each)
        1 => prop_oneof![Just(65534u32), Just(65535), Just(65536), Just(65537)],
    ]
}
fn wnode_strategy() -> impl Strategy<Value = WNode> {
    (int_strategy(), int_strategy(), prop_oneof![12 => any::<u8>(), 1 => Just(0u8), 1 => 1u8..3, 1 => Just(255u8)]).prop_map(|(index, length, fill)| WNode { index, length, fill })
}
fn wnodes() -> impl Strategy<Value = Vec<WNode>> {
    prop_oneof![
        60 => prop::collection::vec(wnode_strategy(), 0..=8),
        // the one-byte boundary of the list length prefix
        1 => (251usize..=254, any::<u8>()).prop_map(|(n, f)| (0..n).map(|i| WNode { index: i as u64, length: (i as u64) << (i % 40), fill: f.wrapping_add(i as u8) }).collect()),
    ]
}

pub fn msg_strategy() -> impl Strategy<Value = Msg> {
    prop_oneof![
        1 => wnode_strategy().prop_map(Msg::Node),
        1 => (int_strategy(), int_strategy()).prop_map(|(index, nodes)| Msg::RequestBlock { index, nodes }),
        1 => int_strategy().prop_map(|bytes| Msg::RequestSeek { bytes }),
        1 => (int_strategy(), int_strategy()).prop_map(|(start, length)| Msg::RequestUpgrade { start, length }),
        3 => (int_strategy(), len_strategy(), any::<u8>(), wnodes()).prop_map(|(index, value_len, value_fill, nodes)| Msg::DataBlock { index, value_len, value_fill, nodes }),
        2 => (int_strategy(), wnodes()).prop_map(|(index, nodes)| Msg::DataHash { index, nodes }),
        2 => (int_strategy(), wnodes()).prop_map(|(bytes, nodes)| Msg::DataSeek { bytes, nodes }),
        3 => (int_strategy(), int_strategy(), wnodes(), wnodes(), prop_oneof![Just(64u32), len_strategy()], any::<u8>())
            .prop_map(|(start, length, nodes, additional_nodes, sig_len, sig_fill)| Msg::DataUpgrade { start, length, nodes, additional_nodes, sig_len, sig_fill }),
        1 => (0u8..6, any::<u8>(), prop_oneof![Just(0u8), Just(31), Just(33), Just(64), any::<u8>()], prop::collection::vec(wnode_strategy(), 0..=8))
            .prop_map(|(carrier, pos, hash_len, nodes)| Msg::BadHash { carrier, pos, hash_len, nodes }),
    ]
}

/// The enumerated boundary cross product.
pub fn boundary_msgs() -> Vec<Msg> {
    let b = BOUNDARY_INTS;
    let mut out = vec![];
    for &x in &b {
        out.push(Msg::RequestSeek { bytes: x });
        for &y in &b {
            out.push(Msg::RequestBlock { index: x, nodes: y });
            out.push(Msg::RequestUpgrade { start: x, length: y });
            out.push(Msg::Node(WNode { index: x, length: y, fill: (x as u8) ^ (y as u8) }));
        }
    }
    // every power of two and its neighbours as node index / length and as request fields
    for k in 0..64u32 {
        for d in [-1i64, 0, 1] {
            let x = (1u64 << k).wrapping_add(d as u64);
            out.push(Msg::Node(WNode { index: x, length: 1, fill: k as u8 }));
            out.push(Msg::Node(WNode { index: 3, length: x, fill: k as u8 }));
            out.push(Msg::RequestBlock { index: x, nodes: x });
            out.push(Msg::DataHash { index: x, nodes: vec![WNode { index: x, length: x, fill: 1 }, WNode { index: 0, length: 0, fill: 2 }] });
        }
    }
    // composite types: boundary integer x list length 0..8 x byte-string lengths
    for &x in &b {
        for nl in 0..=8usize {
            let nodes: Vec<WNode> = (0..nl).map(|i| WNode { index: b[(i * 5 + 1) % 11], length: b[(i * 3) % 12], fill: i as u8 }).collect();
            out.push(Msg::DataHash { index: x, nodes: nodes.clone() });
            out.push(Msg::DataSeek { bytes: x, nodes: nodes.clone() });
            for vl in [0u32, 1, 252, 253, 300] {
                out.push(Msg::DataBlock { index: x, value_len: vl, value_fill: 3, nodes: nodes.clone() });
                out.push(Msg::DataUpgrade { start: x, length: b[(nl + 3) % 12], nodes: nodes.clone(), additional_nodes: nodes.iter().rev().cloned().collect(), sig_len: if vl == 1 { 64 } else { vl }, sig_fill: 9 });
            }
        }
    }
    // byte strings and node lists at the boundaries of their length prefixes
    for vl in [65534u32, 65535, 65536, 65537] {
        out.push(Msg::DataBlock { index: 1, value_len: vl, value_fill: 5, nodes: vec![] });
        out.push(Msg::DataBlock { index: 253, value_len: vl, value_fill: 6, nodes: vec![WNode { index: 2, length: 65535, fill: 1 }] });
        out.push(Msg::DataUpgrade { start: 0, length: 65536, nodes: vec![WNode { index: 1, length: 2, fill: 3 }], additional_nodes: vec![], sig_len: vl, sig_fill: 7 });
    }
    for nl in [251usize, 252, 253, 254, 300] {
        let nodes: Vec<WNode> = (0..nl).map(|i| WNode { index: 2 * i as u64, length: b[i % 12], fill: i as u8 }).collect();
        out.push(Msg::DataHash { index: 0, nodes: nodes.clone() });
        out.push(Msg::DataSeek { bytes: 65535, nodes: nodes.clone() });
        out.push(Msg::DataBlock { index: 0, value_len: 253, value_fill: 1, nodes: nodes.clone() });
        out.push(Msg::DataUpgrade { start: 0, length: 1, nodes: nodes.clone(), additional_nodes: nodes.clone(), sig_len: 64, sig_fill: 2 });
    }
    // node hashes that are not 32 bytes, in every carrier and position
    for carrier in 0u8..6 {
        for hash_len in [0u8, 1, 31, 33, 63, 64, 255] {
            for nl in [1usize, 2, 3] {
                for pos in 0..nl as u8 {
                    let nodes: Vec<WNode> = (0..nl).map(|i| WNode { index: i as u64, length: 1, fill: i as u8 }).collect();
                    out.push(Msg::BadHash { carrier, pos, hash_len, nodes });
                }
            }
        }
    }
    out
}

pub fn run(ctx: &Ctx) {
    ctx.set_rule(
        "cases = values of the eight protocol message types (Node, RequestBlock/Seek/Upgrade, DataBlock/Hash/Seek/Upgrade). For each: \
         encoded_size() == bytes consumed by encode from an oversized buffer == length of an independently written compact-encoding \
         of the fields in protocol order, bytes equal; decode yields the value with nothing left; with trailing bytes exactly those are \
         left; EVERY strict prefix decodes to Err under catch_unwind. Stage 1 enumerates the cross product of the 12 varint boundary \
         integers for the request types and Node plus boundary x list length 0..8 x byte-string lengths {0,1,252,253,300} for the data \
         types, plus byte strings of 65534..65537 bytes and lists of 251..300 nodes (for encodings above 4 KiB the strict prefixes are \
         the first and last 700 and every 61st in between), plus values whose node hash is not 32 bytes in every carrier/position \
         (encode must fail, or else consume the announced size and round-trip); stage 2 draws seeded-random values of all of these. Non-trivial = value with an integer >= 253 or a non-empty list/byte string.",
    );
    let msgs = boundary_msgs();
    let n = msgs.len() as u64;
    indexed_stage(ctx, "boundary-cross-product", n, |i| msgs[i as usize].clone(), check_msg);
    ctx.extra("exhaustive_stage", json!({"boundary_integers": BOUNDARY_INTS.iter().map(|x| x.to_string()).collect::<Vec<_>>(), "values": n, "exhaustive": true}));
    random_stage(ctx, "random", ctx.tier.pick(300_000, 5_000_000), msg_strategy, |m: &Msg, local| check_msg(m, local));
}

pub fn replay(case: &Value) -> Check {
    let m: Msg = serde_json::from_value(case.clone()).map_err(|e| Failure::new("bad-replay", e.to_string()))?;
    let mut l = Local::default();
    check_msg(&m, &mut l)
}
