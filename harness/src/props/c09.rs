//! C09 — no request or proof from a peer can panic the node.

use crate::backend::Disk;
use crate::exec::{block_on, catch};
use crate::model::Blk;
use crate::mutate::*;
use crate::ops::*;
use crate::repl::*;
use crate::runner::*;
use hypercore::{Hypercore, Proof, RequestBlock, RequestSeek, RequestUpgrade};
use proptest::prelude::*;
use serde::{Deserialize, Serialize};
use serde_json::{json, Value};

const P40M1: u64 = (1 << 40) - 1;

/// Boundary values around 0, length, 2*length, byte length and large values.
pub fn boundary_values(len: u64, bytes: u64) -> Vec<u64> {
    let mut v = vec![0, 1, 2, 1 << 16, 1 << 32, P40M1];
    for base in [len, 2 * len, bytes] {
        for d in [-1i64, 0, 1] {
            let x = base as i64 + d;
            if x >= 0 {
                v.push(x as u64);
            }
        }
    }
    v.sort();
    v.dedup();
    v
}

#[derive(Clone, Debug, PartialEq, Eq, Hash, Serialize, Deserialize)]
pub struct RawReq {
    pub block: Option<(u64, u64)>,
    pub hash: Option<(u64, u64)>,
    pub seek: Option<u64>,
    pub upgrade: Option<(u64, u64)>,
}

impl RawReq {
    #[allow(clippy::type_complexity)]
    fn parts(&self) -> (Option<RequestBlock>, Option<RequestBlock>, Option<RequestSeek>, Option<RequestUpgrade>) {
        (
            self.block.map(|(index, nodes)| RequestBlock { index, nodes }),
            self.hash.map(|(index, nodes)| RequestBlock { index, nodes }),
            self.seek.map(|bytes| RequestSeek { bytes }),
            self.upgrade.map(|(start, length)| RequestUpgrade { start, length }),
        )
    }
}

/// The enumerated request family for a core with the given length/byte length.
pub fn request_family(len: u64, bytes: u64) -> Vec<RawReq> {
    let v = boundary_values(len, bytes);
    let nodes = [0u64, 1, 3, 1 << 16];
    let mut indexed: Vec<(Option<(u64, u64)>, Option<(u64, u64)>)> = vec![(None, None)];
    for &i in &v {
        for &n in &nodes {
            indexed.push((Some((i, n)), None));
            indexed.push((None, Some((i, n))));
        }
    }
    // a few with both block and hash
    indexed.push((Some((0, 0)), Some((1, 0))));
    indexed.push((Some((len.saturating_sub(1), 1)), Some((0, 1))));
    let mut seeks: Vec<Option<u64>> = vec![None];
    for s in [0u64, 1, bytes.saturating_sub(1), bytes, bytes + 1, P40M1] {
        if !seeks.contains(&Some(s)) {
            seeks.push(Some(s));
        }
    }
    let up_vals: Vec<u64> = {
        let mut u = vec![0u64, 1, len.saturating_sub(1), len, len + 1, 2 * len, 1 << 32, P40M1];
        u.sort();
        u.dedup();
        u
    };
    let mut upgrades: Vec<Option<(u64, u64)>> = vec![None];
    for &s in &up_vals {
        for &l in &up_vals {
            upgrades.push(Some((s, l)));
        }
    }
    let mut out = Vec::with_capacity(indexed.len() * seeks.len() * upgrades.len());
    for (b, h) in &indexed {
        for s in &seeks {
            for u in &upgrades {
                out.push(RawReq { block: *b, hash: *h, seek: *s, upgrade: *u });
            }
        }
    }
    out
}

#[derive(Clone, Copy, Debug, PartialEq, Eq, Hash, Serialize, Deserialize)]
pub enum Role {
    Writer,
    WriterReopened,
    Replica,
    ReplicaReopened,
}

#[derive(Clone, Debug, PartialEq, Eq, Hash, Serialize, Deserialize)]
pub struct CoreSpec {
    pub n: u64,
    pub cleared: Vec<u64>,
    pub role: Role,
    /// replica: writer length at which it upgraded, blocks it holds
    pub upgraded_at: u64,
    pub held: Vec<u64>,
}

fn blk(i: u64) -> Blk {
    Blk { len: (i % 4) as u32, fill: (i as u8).wrapping_mul(13).wrapping_add(5) }
}

/// Build the core described by the spec; returns the sim (writer + replica).
pub fn build(spec: &CoreSpec) -> Result<RSim, Failure> {
    let mut sim = RSim::new(Disk::new())?;
    let mut local = Local::default();
    let is_replica = matches!(spec.role, Role::Replica | Role::ReplicaReopened);
    let first = if is_replica { spec.upgraded_at.min(spec.n) } else { spec.n };
    if first > 0 {
        sim.apply(&SOp::W(Op::Batch((0..first).map(blk).collect())), &mut local)?;
    }
    if is_replica && first > 0 {
        sim.apply(&SOp::R(Req { target: Target::None, upgrade: Upg::Full, seek: Seek::None }), &mut local)?;
        for h in &spec.held {
            if *h < first {
                sim.apply(&SOp::R(Req { target: Target::BlockAt(*h), upgrade: Upg::None, seek: Seek::None }), &mut local)?;
            }
        }
    }
    if spec.n > first {
        sim.apply(&SOp::W(Op::Batch((first..spec.n).map(blk).collect())), &mut local)?;
    }
    for c in &spec.cleared {
        if *c < spec.n {
            let core = sim.w.core();
            let _ = catch(|| block_on(core.clear(*c, *c + 1)));
            sim.w.model.clear(*c, *c + 1);
        }
    }
    match spec.role {
        Role::WriterReopened => sim.apply(&SOp::W(Op::Reopen), &mut local)?,
        Role::ReplicaReopened => sim.apply(&SOp::RReopen, &mut local)?,
        _ => {}
    }
    Ok(sim)
}

pub fn core_specs() -> Vec<CoreSpec> {
    let mut out = vec![];
    for n in [0u64, 1, 2, 3, 4, 5, 7, 8, 9, 15, 16, 17, 33, 40] {
        out.push(CoreSpec { n, cleared: vec![], role: Role::Writer, upgraded_at: 0, held: vec![] });
        if n > 0 {
            out.push(CoreSpec { n, cleared: vec![], role: Role::WriterReopened, upgraded_at: 0, held: vec![] });
            out.push(CoreSpec { n, cleared: vec![0, n / 2, n - 1], role: Role::Writer, upgraded_at: 0, held: vec![] });
            out.push(CoreSpec { n, cleared: vec![], role: Role::Replica, upgraded_at: n, held: vec![0, n - 1] });
            out.push(CoreSpec { n, cleared: vec![], role: Role::Replica, upgraded_at: n.div_ceil(2), held: vec![n / 3] });
            out.push(CoreSpec { n, cleared: vec![], role: Role::ReplicaReopened, upgraded_at: n, held: vec![n / 2] });
        } else {
            out.push(CoreSpec { n, cleared: vec![], role: Role::Replica, upgraded_at: 0, held: vec![] });
        }
    }
    out
}

fn target<'a>(sim: &'a mut RSim, role: Role) -> &'a mut Hypercore {
    match role {
        Role::Writer | Role::WriterReopened => sim.w.core(),
        _ => sim.replica(),
    }
}

/// The core must still answer after a peer call.
fn usable(sim: &mut RSim, role: Role, ctxt: &str) -> Check {
    let is_writer = matches!(role, Role::Writer | Role::WriterReopened);
    let next = sim.wblocks.len() as u64;
    let core = target(sim, role);
    let r = catch(|| -> Result<(), String> {
        let info = core.info();
        block_on(core.get(0)).map_err(|e| format!("get(0) failed: {e}"))?;
        if info.length > 0 {
            // an honest request must still be answered without a panic (errors allowed for replicas lacking data)
            let _ = block_on(core.create_proof(None, None, None, Some(RequestUpgrade { start: 0, length: info.length })));
            let _ = block_on(core.missing_nodes(0));
        }
        if is_writer && info.writeable {
            let data = vec![0xee, (next % 251) as u8];
            let o = block_on(core.append(&data)).map_err(|e| format!("append failed: {e}"))?;
            let back = block_on(core.get(o.length - 1)).map_err(|e| format!("read-back failed: {e}"))?;
            if back.as_deref() != Some(&data[..]) {
                return Err(format!("read-back of the appended block returned {:?}", back));
            }
        }
        Ok(())
    });
    match r {
        Ok(Ok(())) => {
            if is_writer {
                // keep the sim's bookkeeping aligned with the extra block
                let data = vec![0xee, (next % 251) as u8];
                sim.w.model.append(data.clone());
                sim.wblocks.push(data);
                let cur = (sim.w.model.len(), sim.w.model.byte_length);
                sim.whistory.push(cur);
            }
            Ok(())
        }
        Ok(Err(e)) => Err(Failure::new("unusable-after-peer-call", format!("{ctxt}: core no longer usable: {e}"))),
        Err(p) => Err(panic_failure(&format!("{ctxt}: usability check"), &p)),
    }
}

fn classify_req_outcome(r: &Result<Option<Proof>, hypercore::HypercoreError>, local: &mut Local, key: &impl std::hash::Hash) {
    match r {
        Ok(Some(_)) => {
            local.class("request:Ok(Some)");
            local.nontrivial(key);
        }
        Ok(None) => {
            local.class("request:Ok(None)");
            local.nontrivial(key);
        }
        Err(e) => {
            let s = e.to_string();
            if s.contains("Invalid upgrade") {
                local.class("request:Err(Invalid upgrade)");
            } else {
                local.class("request:Err(other)");
                local.nontrivial(key);
            }
        }
    }
}

#[derive(Clone, Debug, Serialize, Deserialize)]
pub struct FamilyCase {
    pub spec: CoreSpec,
    pub start: usize,
    pub count: usize,
    pub stride: usize,
}

pub fn run_family(case: &FamilyCase, local: &mut Local) -> Check {
    let mut sim = build(&case.spec)?;
    let role = case.spec.role;
    let (len, bytes) = {
        let c = target(&mut sim, role);
        let i = c.info();
        (i.length, i.byte_length)
    };
    let fam = request_family(len, bytes);
    local.evals = local.evals.saturating_sub(1);
    let mut k = 0usize;
    let mut idx = case.start;
    while k < case.count && idx < fam.len() {
        let rq = &fam[idx];
        let (b, h, s, u) = rq.parts();
        let core = target(&mut sim, role);
        let r = catch(|| block_on(core.create_proof(b, h, s, u)))
            .map_err(|p| panic_failure(&format!("create_proof({rq:?}) on {:?} core of length {len}", role), &p))?;
        local.evals += 1;
        classify_req_outcome(&r, local, &(hash_of(&case.spec), idx));
        if k % 64 == 63 {
            usable(&mut sim, role, &format!("after create_proof({rq:?})"))?;
        }
        k += 1;
        idx += case.stride;
    }
    usable(&mut sim, role, "after the request batch")?;
    Ok(())
}

// ---------------------------------------------------------------- random requests / proofs

fn bval_strategy() -> impl Strategy<Value = (u8, i8)> {
    // (base selector, delta): resolved against the core at run time
    (0u8..8, -2i8..=2)
}

pub fn resolve_b(b: (u8, i8), len: u64, bytes: u64) -> u64 {
    let base = match b.0 {
        0 => 0,
        1 => len,
        2 => 2 * len,
        3 => bytes,
        4 => 1 << 16,
        5 => 1 << 32,
        6 => P40M1 - 2,
        _ => len / 2,
    };
    let x = base as i64 + b.1 as i64;
    (x.max(0) as u64).min(P40M1)
}

#[derive(Clone, Debug, PartialEq, Eq, Hash, Serialize, Deserialize)]
pub struct AbsReq {
    pub block: Option<((u8, i8), (u8, i8))>,
    pub hash: Option<((u8, i8), (u8, i8))>,
    pub seek: Option<(u8, i8)>,
    pub upgrade: Option<((u8, i8), (u8, i8))>,
}

pub fn absreq_strategy() -> impl Strategy<Value = AbsReq> {
    (
        prop::option::weighted(0.5, (bval_strategy(), bval_strategy())),
        prop::option::weighted(0.3, (bval_strategy(), bval_strategy())),
        prop::option::weighted(0.4, bval_strategy()),
        prop::option::weighted(0.6, (bval_strategy(), bval_strategy())),
    )
        .prop_map(|(block, hash, seek, upgrade)| AbsReq { block, hash, seek, upgrade })
}

#[derive(Clone, Debug, PartialEq, Eq, Hash, Serialize, Deserialize)]
pub struct ANode {
    pub index: (u8, i8),
    pub size: (u8, i8),
    pub fill: u8,
}

#[derive(Clone, Debug, PartialEq, Eq, Hash, Serialize, Deserialize)]
pub struct AProof {
    pub fork: u8,
    pub block: Option<((u8, i8), Vec<u8>, Vec<ANode>)>,
    pub hash: Option<((u8, i8), Vec<ANode>)>,
    pub seek: Option<((u8, i8), Vec<ANode>)>,
    #[allow(clippy::type_complexity)]
    pub upgrade: Option<((u8, i8), (u8, i8), Vec<ANode>, Vec<ANode>, u8)>,
}

fn anode_strategy() -> impl Strategy<Value = ANode> {
    (bval_strategy(), bval_strategy(), any::<u8>()).prop_map(|(index, size, fill)| ANode { index, size, fill })
}
fn anodes() -> impl Strategy<Value = Vec<ANode>> {
    prop::collection::vec(anode_strategy(), 0..6)
}

fn aproof_strategy() -> impl Strategy<Value = AProof> {
    (
        prop_oneof![9 => Just(0u8), 1 => 1u8..3],
        prop::option::weighted(0.5, (bval_strategy(), prop::collection::vec(any::<u8>(), 0..64), anodes())),
        prop::option::weighted(0.3, (bval_strategy(), anodes())),
        prop::option::weighted(0.3, (bval_strategy(), anodes())),
        prop::option::weighted(0.6, (bval_strategy(), bval_strategy(), anodes(), anodes(), prop_oneof![Just(0u8), Just(63), Just(64), Just(65)])),
    )
        .prop_map(|(fork, block, hash, seek, upgrade)| AProof { fork, block, hash, seek, upgrade })
}

fn resolve_nodes(v: &[ANode], len: u64, bytes: u64) -> Vec<PNode> {
    v.iter()
        .map(|n| PNode { index: resolve_b(n.index, len, bytes), size: resolve_b(n.size, len, bytes), hash: vec![n.fill | 1; 32] })
        .collect()
}

fn resolve_proof(a: &AProof, len: u64, bytes: u64) -> PProof {
    PProof {
        fork: a.fork as u64,
        block: a.block.as_ref().map(|(i, v, n)| PBlock { index: resolve_b(*i, len, bytes), value: v.clone(), nodes: resolve_nodes(n, len, bytes) }),
        hash: a.hash.as_ref().map(|(i, n)| PHash { index: resolve_b(*i, len, bytes), nodes: resolve_nodes(n, len, bytes) }),
        seek: a.seek.as_ref().map(|(i, n)| PSeek { bytes: resolve_b(*i, len, bytes), nodes: resolve_nodes(n, len, bytes) }),
        upgrade: a.upgrade.as_ref().map(|(s, l, n, x, siglen)| PUpgrade {
            start: resolve_b(*s, len, bytes),
            length: resolve_b(*l, len, bytes),
            nodes: resolve_nodes(n, len, bytes),
            additional_nodes: resolve_nodes(x, len, bytes),
            signature: vec![0x42; *siglen as usize],
        }),
    }
}

#[derive(Clone, Debug, PartialEq, Eq, Hash, Serialize, Deserialize)]
pub enum PeerCall {
    /// request to the writer / to the replica
    Req { to_replica: bool, req: AbsReq },
    /// structurally arbitrary proof to the replica / to the writer
    Proof { to_replica: bool, proof: AProof },
    /// an honest proof for `req`, altered by `alts` (indices into its alteration set), to the replica
    Altered { req: Req, alts: Vec<u16> },
}

#[derive(Clone, Debug, PartialEq, Eq, Hash, Serialize, Deserialize)]
pub struct PeerCase {
    pub session: Vec<SOp>,
    pub calls: Vec<PeerCall>,
}

fn peercall_strategy() -> impl Strategy<Value = PeerCall> {
    prop_oneof![
        4 => (any::<bool>(), absreq_strategy()).prop_map(|(to_replica, req)| PeerCall::Req { to_replica, req }),
        4 => (prop::bool::weighted(0.8), aproof_strategy()).prop_map(|(to_replica, proof)| PeerCall::Proof { to_replica, proof }),
        4 => (req_strategy(), prop::collection::vec(any::<u16>(), 1..4)).prop_map(|(req, alts)| PeerCall::Altered { req, alts }),
    ]
}

pub fn peercase_strategy() -> impl Strategy<Value = PeerCase> {
    (session_strategy(16), prop::collection::vec(peercall_strategy(), 1..24)).prop_map(|(session, calls)| PeerCase { session, calls })
}

pub fn run_peercase(case: &PeerCase, local: &mut Local) -> Check {
    let mut sim = RSim::new(Disk::new())?;
    let mut scratch = Local::default();
    for op in &case.session {
        sim.apply(op, &mut scratch)?;
    }
    local.evals = local.evals.saturating_sub(1);
    for (ci, call) in case.calls.iter().enumerate() {
        match call {
            PeerCall::Req { to_replica, req } => {
                let role = if *to_replica { Role::Replica } else { Role::Writer };
                let core = target(&mut sim, role);
                let info = core.info();
                let rr = RawReq {
                    block: req.block.map(|(i, n)| (resolve_b(i, info.length, info.byte_length), resolve_b(n, info.length, info.byte_length))),
                    hash: req.hash.map(|(i, n)| (resolve_b(i, info.length, info.byte_length), resolve_b(n, info.length, info.byte_length))),
                    seek: req.seek.map(|s| resolve_b(s, info.length, info.byte_length)),
                    upgrade: req.upgrade.map(|(s, l)| (resolve_b(s, info.length, info.byte_length), resolve_b(l, info.length, info.byte_length))),
                };
                let (b, h, s, u) = rr.parts();
                let r = catch(|| block_on(core.create_proof(b, h, s, u)))
                    .map_err(|p| panic_failure(&format!("call {ci}: create_proof({rr:?}) on {:?} (length {})", role, info.length), &p))?;
                local.evals += 1;
                classify_req_outcome(&r, local, &(hash_of(&case.session), &rr, to_replica));
                usable(&mut sim, role, &format!("call {ci}: after create_proof({rr:?})"))?;
            }
            PeerCall::Proof { to_replica, proof } => {
                let role = if *to_replica { Role::Replica } else { Role::Writer };
                let core = target(&mut sim, role);
                let info = core.info();
                let pp = resolve_proof(proof, info.length, info.byte_length);
                let p = pp.to_proof();
                let r = catch(|| block_on(core.verify_and_apply_proof(&p)))
                    .map_err(|e| panic_failure(&format!("call {ci}: verify_and_apply_proof({pp:?}) on {:?} (length {})", role, info.length), &e))?;
                local.evals += 1;
                match &r {
                    Ok(true) => local.class("arbitrary_proof:accepted"),
                    Ok(false) => local.class("arbitrary_proof:Ok(false)"),
                    Err(_) => local.class("arbitrary_proof:Err"),
                }
                if pp.block.is_some() || pp.hash.is_some() || pp.seek.as_ref().map(|s| !s.nodes.is_empty()).unwrap_or(false) || pp.upgrade.is_some() {
                    local.nontrivial(&(hash_of(&case.session), &pp));
                }
                usable(&mut sim, role, &format!("call {ci}: after verify_and_apply_proof({pp:?})"))?;
            }
            PeerCall::Altered { req, alts } => {
                let c = match sim.resolve(req)? {
                    Ok(c) => c,
                    Err(_) => continue,
                };
                let honest = match sim.writer_proof(&c)? {
                    Ok(Some(p)) => p,
                    _ => continue,
                };
                let pp = PProof::from_proof(&honest);
                let (set, _) = alterations(&pp);
                if set.is_empty() {
                    continue;
                }
                let mut q = pp.clone();
                let mut used = vec![];
                for a in alts {
                    let alt = &set[crate::model::sel(*a, set.len() as u64) as usize];
                    if apply_alt(&mut q, alt) {
                        used.push(alt.clone());
                    }
                }
                let p = q.to_proof();
                let core = sim.replica();
                let r = catch(|| block_on(core.verify_and_apply_proof(&p)))
                    .map_err(|e| panic_failure(&format!("call {ci}: verify_and_apply_proof of honest proof for {c:?} altered by {used:?}"), &e))?;
                local.evals += 1;
                match &r {
                    Ok(true) => local.class("altered_proof:accepted"),
                    Ok(false) => local.class("altered_proof:Ok(false)"),
                    Err(_) => local.class("altered_proof:Err"),
                }
                local.nontrivial(&(hash_of(&case.session), &q));
                usable(&mut sim, Role::Replica, &format!("call {ci}: after altered proof {used:?}"))?;
            }
        }
    }
    Ok(())
}

pub fn run(ctx: &Ctx) {
    ctx.set_rule(
        "evaluations = calls made with peer-controlled input: create_proof(request tuple) and verify_and_apply_proof(proof), each under \
         catch_unwind and a watchdog. Stage 1 enumerates, for 75 cores (lengths 0..40; writers, reopened writers, writers with cleared \
         blocks, partially synced replicas, reopened replicas), the request family {no indexed part | block | hash with index from the \
         boundary set around 0/length/2*length/byte length/2^16/2^32/2^40-1 and nodes in {0,1,3,2^16}} x {seek absent or 6 boundary \
         offsets} x {upgrade absent or start,length from 8 boundary values} (complete in thorough, every 2nd tuple in quick). Stage 2: \
         seeded-random sessions followed by random peer calls (boundary-relative request tuples to writer and replica; structurally \
         arbitrary proofs; honest proofs altered by 1-3 alterations of the C04 set), stateful. After calls the core must still answer \
         info/get(0)/an honest request and (writers) append + read-back. Non-trivial = the call got past the first range check \
         (result other than Err('Invalid upgrade')) resp. a proof with at least one section; distinct = (core, call).",
    );
    ctx.assume("numeric fields below 2^40, node hashes 32 bytes (what the wire decoder produces)");
    let specs = core_specs();
    let stride = ctx.tier.pick(2usize, 1usize);
    // chunk the family of each core
    let mut cases: Vec<FamilyCase> = vec![];
    for spec in &specs {
        // family size depends on the built core; use an upper bound and let run_family stop at the end
        let approx = 140 * 8 * 70;
        let per = 4000usize;
        let mut start = (ctx.seed as usize) % stride;
        while start < approx {
            cases.push(FamilyCase { spec: spec.clone(), start, count: per / stride.max(1) + 1, stride });
            start += per;
        }
    }
    let n = cases.len() as u64;
    indexed_stage(ctx, "request-family", n, |i| cases[i as usize].clone(), run_family);
    ctx.extra("request_family_stage", json!({"cores": specs.len(), "stride": stride, "chunks": n, "exhaustive": stride == 1}));
    random_stage(ctx, "random-peer-calls", ctx.tier.pick(30_000, 150_000), peercase_strategy, |c: &PeerCase, local| run_peercase(c, local));
}

pub fn replay(case: &Value) -> Check {
    let mut l = Local::default();
    if case.get("spec").is_some() {
        let c: FamilyCase = serde_json::from_value(case.clone()).map_err(|e| Failure::new("bad-replay", e.to_string()))?;
        run_family(&c, &mut l)
    } else {
        let c: PeerCase = serde_json::from_value(case.clone()).map_err(|e| Failure::new("bad-replay", e.to_string()))?;
        run_peercase(&c, &mut l)
    }
}
