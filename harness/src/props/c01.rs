//! C01 — log contents equal an append-only list model, across close and reopen.

use crate::backend::{Disk, JOp, OPLOG};
use crate::model::Blk;
use crate::ops::*;
use crate::runner::*;
use proptest::prelude::*;
use serde_json::{json, Value};

pub const ALPHABET: [&str; 8] =
    ["append1", "append0", "batch[2,0]", "batch[]", "clear(0,1)", "clear(mid,mid+2)", "clear(len-1,len+1)", "reopen"];

pub fn alphabet_op(sym: u8) -> Op {
    match sym {
        0 => Op::Append(Blk { len: 1, fill: 0xa1 }),
        1 => Op::Append(Blk { len: 0, fill: 0 }),
        2 => Op::Batch(vec![Blk { len: 2, fill: 0xb2 }, Blk { len: 0, fill: 0 }]),
        3 => Op::Batch(vec![]),
        4 => Op::Clear { a: 0, n: 0 },
        5 => Op::Clear { a: 0x8000, n: 1 },
        6 => Op::Clear { a: 0xffff, n: 1 },
        _ => Op::Reopen,
    }
}

/// All sequences of length <= max_len over `k` symbols, shortest first.
pub fn seq_count(k: u64, max_len: u32) -> u64 {
    (0..=max_len).map(|l| k.pow(l)).sum()
}

pub fn seq_at(k: u64, mut i: u64) -> Vec<u8> {
    let mut len = 0u32;
    loop {
        let n = k.pow(len);
        if i < n {
            break;
        }
        i -= n;
        len += 1;
    }
    let mut v = Vec::with_capacity(len as usize);
    for _ in 0..len {
        v.push((i % k) as u8);
        i /= k;
    }
    v.reverse();
    v
}

fn is_header_write(op: &JOp) -> bool {
    matches!(op, JOp::Write { s, off, .. } if *s == OPLOG && (*off == 0 || *off == 4096))
}

/// Run one history on a journaled disk with the model; classify.
pub fn run_history(ops: &[Op], policy: ObsPolicy, check_contig: bool, local: &mut Local) -> Check {
    let disk = Disk::journaled();
    let mut sim = WSim::create(&disk, policy)?;
    sim.check_contig = check_contig;
    let mut unflushed_muts = 0u32; // mutating calls persisted only as log entries
    let mut jpos = disk.journal_len();
    let mut nontrivial = false;
    let mut reopen_with_unflushed = 0u32;
    let mut cleared = false;
    let mut append_after_clear = false;
    let mut clear_append_reopen = false;
    for op in ops {
        if matches!(op, Op::Reopen) && unflushed_muts > 0 {
            reopen_with_unflushed += 1;
            nontrivial = true;
        }
        if matches!(op, Op::Reopen) && append_after_clear {
            clear_append_reopen = true;
            nontrivial = true;
        }
        sim.apply(op)?;
        // journal bookkeeping
        let j = disk.0.journal.lock().unwrap();
        let new = &j[jpos..];
        if new.iter().any(is_header_write) {
            unflushed_muts = 0;
        } else if !new.is_empty() {
            unflushed_muts += 1;
        }
        jpos = j.len();
        drop(j);
        match op {
            Op::Clear { .. } if sim.model.len() > 0 => cleared = true,
            Op::Append(_) | Op::Big(_) if cleared => append_after_clear = true,
            Op::Batch(b) if cleared && !b.is_empty() => append_after_clear = true,
            _ => {}
        }
    }
    sim.observe_check(true, "final")?;
    local.class("histories");
    if reopen_with_unflushed > 0 {
        local.class("with_reopen_over_unflushed_entries");
    }
    if sim.reopens > 0 {
        local.class("with_reopen");
    }
    if clear_append_reopen {
        local.class("with_clear_then_append_then_reopen");
    }
    if sim.clears > 0 {
        local.class("with_clear");
    }
    if sim.model.len() > 32768 {
        local.class("longer_than_one_bitfield_page");
    }
    if nontrivial {
        local.nontrivial(&ops);
    }
    Ok(())
}

pub fn history_strategy(max: usize) -> impl Strategy<Value = Vec<Op>> {
    prop::collection::vec(op_strategy(), 0..max)
}

pub fn big_history_strategy() -> impl Strategy<Value = Vec<Op>> {
    prop::collection::vec(big_op_strategy(), 2..14)
}

/// One or two batches carrying 8-20 MiB each (blocks of 0.5-5 MiB), surrounded by small operations:
/// the data of one call spans many megabytes, whatever slices or buffers the data path uses.
pub fn huge_batch_history_strategy() -> impl Strategy<Value = Vec<Op>> {
    let huge = (prop::collection::vec((prop_oneof![Just(1u32 << 19), Just((1 << 20) + 1), Just(2 << 20), Just((3 << 20) - 1), Just(4 << 20), Just((4 << 20) + 1), Just(5 << 20)], any::<u8>()), 2..9), any::<u8>()).prop_map(
        |(mut v, extra)| {
            // make sure the batch carries more than 8 MiB (at least three 4 MiB slices)
            let mut total: u64 = v.iter().map(|(l, _)| *l as u64).sum();
            while total <= (9 << 20) {
                v.push(((3 << 20) + extra as u32, extra));
                total += (3 << 20) + extra as u64;
            }
            Op::Batch(v.into_iter().map(|(len, fill)| Blk { len, fill }).collect())
        },
    );
    (prop::collection::vec(op_strategy(), 0..4), huge, prop::collection::vec(op_strategy(), 0..4)).prop_map(|(mut a, h, mut b)| {
        a.push(h);
        a.append(&mut b);
        a.push(Op::Reopen);
        a
    })
}

pub fn run(ctx: &Ctx) {
    ctx.set_rule(
        "cases = operation histories over {append, batch 0..8, clear, get, has, info, reopen} run against the list model \
         (bounded-exhaustive over an 8-symbol alphabet, then seeded-random, then 'big' histories crossing 8192/32768/65536 blocks, then histories with one batch of 9-25 MiB). \
         Non-trivial = the history contains a reopen while >=1 mutating call is persisted only as an oplog entry \
         (no header write since it, known from the storage journal), or a clear followed by an append and then a reopen. \
         distinct = distinct op sequences (hash of the sequence).",
    );
    ctx.assume("in-memory instrumented backend has the semantics of random-access-memory/-disk (cross-validated by C14)");
    let l = ctx.tier.pick(5u32, 6u32);
    let n = seq_count(8, l);
    indexed_stage(
        ctx,
        "exhaustive",
        n,
        |i| seq_at(8, i).into_iter().map(alphabet_op).collect::<Vec<Op>>(),
        |ops, local| run_history(ops, ObsPolicy::Full, false, local),
    );
    ctx.extra("exhaustive_stage", json!({"alphabet": ALPHABET, "max_len": l, "sequences": n, "exhaustive": true}));
    random_stage(ctx, "random", ctx.tier.pick(20_000, 400_000), || history_strategy(60), |ops: &Vec<Op>, local| {
        run_history(ops, ObsPolicy::Windowed, false, local)
    });
    random_stage(ctx, "big", ctx.tier.pick(160, 3_000), big_history_strategy, |ops: &Vec<Op>, local| {
        run_history(ops, ObsPolicy::Scaled, false, local)
    });
    random_stage(ctx, "huge-batches", ctx.tier.pick(24, 300), huge_batch_history_strategy, |ops: &Vec<Op>, local| {
        if ops.iter().any(|o| matches!(o, Op::Batch(b) if b.iter().map(|x| x.len as u64).sum::<u64>() > (8 << 20))) {
            local.class("with_a_batch_of_more_than_8_mib");
        }
        run_history(ops, ObsPolicy::Windowed, false, local)
    });
    random_stage(ctx, "page-clears", ctx.tier.pick(64, 1_200), page_clear_history_strategy, |ops: &Vec<Op>, local| {
        run_history(ops, ObsPolicy::Scaled, false, local)
    });
}

pub fn replay(case: &Value) -> Check {
    let ops: Vec<Op> = serde_json::from_value(case.clone()).map_err(|e| Failure::new("bad-replay", e.to_string()))?;
    let big = ops.iter().any(|o| matches!(o, Op::Big(_)));
    let mut l = Local::default();
    run_history(&ops, if big { ObsPolicy::Scaled } else { ObsPolicy::Full }, false, &mut l)
}
