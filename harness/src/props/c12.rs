//! C12 — secret key hygiene: read-only cores cannot write and leave no key on disk.

use crate::backend::{Disk, Files, STORE_NAMES};
use crate::crash::*;
use crate::exec::{block_on, catch};
use crate::hc::{self, TEST_SECRET_KEY_BYTES};
use crate::model::Blk;
use crate::ops::*;
use crate::repl::*;
use crate::runner::*;
use hypercore::{HypercoreBuilder, HypercoreError};
use proptest::prelude::*;
use serde_json::{json, Value};

pub const ALPHABET9: [&str; 9] =
    ["append1", "append0", "batch[2,0]", "batch[]", "clear(0,1)", "clear(mid,mid+2)", "clear(len-1,len+1)", "reopen", "make_read_only"];

fn alphabet9(sym: u8) -> Op {
    if sym == 8 {
        Op::MakeReadOnly
    } else {
        crate::props::c01::alphabet_op(sym)
    }
}

fn contains(hay: &[u8], needle: &[u8]) -> Option<usize> {
    hay.windows(needle.len()).position(|w| w == needle)
}

/// No file may contain the secret key (nor either 16-byte half of it).
pub fn scan_for_secret(files: &Files, ctxt: &str) -> Check {
    let sk = TEST_SECRET_KEY_BYTES;
    for (s, f) in files.iter().enumerate() {
        for (name, needle) in [("the 32-byte secret key", &sk[..]), ("the last 16 bytes of the secret key", &sk[16..]), ("the first 16 bytes of the secret key", &sk[..16])] {
            if let Some(pos) = contains(f, needle) {
                return Err(Failure::new(
                    format!("secret-key-on-disk:{}", STORE_NAMES[s]),
                    format!("{ctxt}: the {} file still contains {name} at byte {pos}", STORE_NAMES[s]),
                ));
            }
        }
    }
    Ok(())
}

pub fn history_strategy() -> impl Strategy<Value = Vec<Op>> {
    let op = prop_oneof![
        5 => blk_strategy().prop_map(Op::Append),
        3 => prop::collection::vec(small_blk_strategy(), 0..6).prop_map(Op::Batch),
        3 => clear_strategy(),
        2 => idx_strategy().prop_map(Op::Get),
        1 => Just(Op::Info),
        3 => Just(Op::Reopen),
        3 => Just(Op::MakeReadOnly),
    ];
    prop::collection::vec(op, 1..30)
}

pub fn run_history(ops: &[Op], local: &mut Local) -> Check {
    let disk = Disk::journaled();
    let mut sim = WSim::create(&disk, ObsPolicy::Windowed)?;
    let mut unflushed = 0u32;
    let mut made_ro_with_unflushed = false;
    let mut made_ro = false;
    let mut refused_appends = 0;
    for (k, op) in ops.iter().enumerate() {
        let readonly_before = !sim.model.writeable;
        let guarded = readonly_before && matches!(op, Op::Append(_) | Op::Batch(_) | Op::MakeReadOnly);
        let before_files = if guarded { Some(disk.snapshot()) } else { None };
        let before_obs = if guarded { Some(sim.full_obs()?) } else { None };
        let jb = disk.journal_len();
        let first_ro = matches!(op, Op::MakeReadOnly) && sim.model.writeable;
        if first_ro && unflushed > 0 {
            made_ro_with_unflushed = true;
        }
        if readonly_before && matches!(op, Op::Batch(b) if b.is_empty()) {
            // "a core without a secret key refuses appends with a not-writable error": the guard of
            // append_batch comes before any look at the batch, so an empty batch is refused as well
            let out = sim.exec(op)?;
            if !matches!(&out, Out::Err(k) if k.starts_with("NotWritable")) {
                return Err(Failure::new(
                    "empty-append-on-readonly-not-refused",
                    format!("op {k}: append_batch([]) on a core without secret key returned {out:?} instead of the not-writable error"),
                ));
            }
            sim.check_and_advance(op, &out)?;
            sim.step += 1;
            local.class("empty_batch_on_read_only_core_refused");
        } else {
            sim.apply(op)?;
        }
        let ctxt = format!("after op {k} {op:?}");
        if let (Some(bf), Some(bo)) = (before_files, before_obs) {
            // (1) refused append / second make_read_only changes nothing
            if disk.snapshot() != bf {
                return Err(Failure::new("readonly-call-changed-files", format!("{ctxt}: the call on a core without secret key changed the storage files")));
            }
            let ao = sim.full_obs()?;
            if let Some(d) = bo.diff(&ao) {
                return Err(Failure::new("readonly-call-changed-observation", format!("{ctxt}: the call on a core without secret key changed an observation: {d}")));
            }
            if matches!(op, Op::Append(_)) || matches!(op, Op::Batch(b) if !b.is_empty()) {
                refused_appends += 1;
            }
        }
        if first_ro {
            made_ro = true;
            // (2) no key on disk, read-only, data intact (the sim's observation check ran), reopen keeps it
            scan_for_secret(&disk.snapshot(), &ctxt)?;
            if sim.core().key_pair().secret.is_some() {
                return Err(Failure::new("secret-key-in-memory", format!("{ctxt}: key_pair() still exposes a secret key")));
            }
        } else if made_ro {
            // the key must never come back
            scan_for_secret(&disk.snapshot(), &ctxt)?;
        }
        let j = disk.0.journal.lock().unwrap();
        if j.len() > jb {
            if j[jb..].iter().any(is_header_write) {
                unflushed = 0;
            } else {
                unflushed += 1;
            }
        }
    }
    // (4) open(true) recovers public key and writability; key pair + open mode is rejected
    let expect_writeable = sim.model.writeable;
    sim.apply(&Op::Reopen)?;
    if sim.core().key_pair().public.to_bytes() != hc::TEST_PUBLIC_KEY_BYTES {
        return Err(Failure::new("public-key-not-recovered", "open(true) did not recover the stored public key".to_string()));
    }
    if sim.core().info().writeable != expect_writeable {
        return Err(Failure::new("writability-not-recovered", format!("open(true) recovered writeable = {}", !expect_writeable)));
    }
    sim.core = None;
    let before = disk.snapshot();
    let r = catch(|| {
        block_on(async {
            let storage = disk.storage_async().await?;
            HypercoreBuilder::new(storage).key_pair(hc::test_keypair()).open(true).build().await
        })
    })
    .map_err(|p| panic_failure("building with key pair and open(true)", &p))?;
    match r {
        Err(HypercoreError::BadArgument { .. }) | Err(_) => {}
        Ok(_) => return Err(Failure::new("keypair-with-open-accepted", "supplying a key pair together with open(true) was accepted".to_string())),
    }
    if disk.snapshot() != before {
        return Err(Failure::new("keypair-with-open-changed-files", "the rejected build changed the storage files".to_string()));
    }
    // (4b) building on the existing storage with the full key pair but WITHOUT open(true) (and without
    // overwrite) must also recover the stored writability: a core made read-only stays read-only
    {
        let r = catch(|| {
            block_on(async {
                let storage = disk.storage_async().await?;
                HypercoreBuilder::new(storage).key_pair(hc::test_keypair()).build().await
            })
        })
        .map_err(|p| panic_failure("building on existing storage with a key pair", &p))?;
        if let Ok(mut core) = r {
            let w = core.info().writeable;
            if w != expect_writeable {
                return Err(Failure::new(
                    "writability-not-recovered:build-with-keypair",
                    format!("building on existing storage with the full key pair (no open mode) reports writeable = {w}, the storage says {expect_writeable}"),
                ));
            }
            if !expect_writeable {
                match catch(|| block_on(core.append(b"x"))).map_err(|p| panic_failure("append on rebuilt read-only core", &p))? {
                    Err(HypercoreError::NotWritable) => {}
                    other => return Err(Failure::new("append-on-readonly", format!("append on a read-only storage rebuilt with a key pair returned {other:?}"))),
                }
            }
            local.class("rebuilt_with_keypair_without_open_mode");
        }
        if disk.snapshot() != before {
            return Err(Failure::new("keypair-build-changed-files", "building on existing storage and a refused append changed the storage files".to_string()));
        }
    }
    // (4c) the same with only the public half of the key pair, on a byte copy: the stored writability
    // is recovered, and make_read_only then scrubs the stored secret (or reports that nothing changed)
    {
        let copy = Disk::from_files(before.clone());
        let r = catch(|| {
            block_on(async {
                let storage = copy.storage_async().await?;
                HypercoreBuilder::new(storage).key_pair(hc::public_only(&hc::test_keypair())).build().await
            })
        })
        .map_err(|p| panic_failure("building on existing storage with the public key only", &p))?;
        if let Ok(mut core) = r {
            let w = core.info().writeable;
            if w != expect_writeable {
                return Err(Failure::new(
                    "writability-not-recovered:build-with-public-key",
                    format!("building on existing storage with the public key only (no open mode) reports writeable = {w}, the storage says {expect_writeable}"),
                ));
            }
            match catch(|| block_on(core.make_read_only())).map_err(|p| panic_failure("make_read_only on a core rebuilt with the public key", &p))? {
                Ok(changed) if changed == expect_writeable => {}
                other => {
                    return Err(Failure::new(
                        "make-read-only-result:build-with-public-key",
                        format!("make_read_only on storage (writeable = {expect_writeable}) rebuilt with the public key only returned {other:?}"),
                    ))
                }
            }
            drop(core);
            scan_for_secret(&copy.snapshot(), "after make_read_only on a core rebuilt with the public key only")?;
            local.class("rebuilt_with_public_key_without_open_mode");
        }
    }
    local.class("histories");
    if made_ro {
        local.class("with_make_read_only");
    }
    if made_ro_with_unflushed {
        local.class("make_read_only_with_unflushed_entries");
        local.nontrivial(&ops);
    }
    if refused_appends > 0 {
        local.class("with_refused_append");
    }
    Ok(())
}

/// Replica (never had the secret): make_read_only is a no-op, appends are refused.
pub fn run_replica(ops: &[SOp], local: &mut Local) -> Check {
    let mut sim = RSim::new(Disk::new())?;
    let mut scratch = Local::default();
    for op in ops {
        sim.apply(op, &mut scratch)?;
    }
    let upto = sim.wlen() + 3;
    let before_files = sim.rdisk.snapshot();
    let r = sim.replica();
    let before = hc::observe(r, upto, false).map_err(|p| panic_failure("observing the replica", &p))?;
    let res = catch(|| block_on(r.make_read_only())).map_err(|p| panic_failure("replica.make_read_only", &p))?;
    match res {
        Ok(false) => {}
        other => return Err(Failure::new("replica-make-read-only-result", format!("make_read_only on a replica returned {other:?}, expected Ok(false)"))),
    }
    for data in [vec![b"x".to_vec()], vec![vec![], b"yz".to_vec()]] {
        match catch(|| block_on(r.append_batch(&data))).map_err(|p| panic_failure("replica.append_batch", &p))? {
            Err(HypercoreError::NotWritable) => {}
            other => return Err(Failure::new("append-on-readonly", format!("append_batch on a replica returned {other:?}, expected NotWritable"))),
        }
    }
    let _ = catch(|| block_on(r.append_batch(&Vec::<Vec<u8>>::new())));
    let after = hc::observe(r, upto, false).map_err(|p| panic_failure("observing the replica", &p))?;
    if let Some(d) = before.diff(&after) {
        return Err(Failure::new("readonly-call-changed-observation", format!("refused calls on a replica changed an observation: {d}")));
    }
    if sim.rdisk.snapshot() != before_files {
        return Err(Failure::new("readonly-call-changed-files", "refused calls on a replica changed its storage files".to_string()));
    }
    scan_for_secret(&sim.rdisk.snapshot(), "replica storage")?;
    local.class("replica_sessions");
    if sim.accepted > 0 {
        local.nontrivial(&ops);
    }
    Ok(())
}

/// (3) crash inside make_read_only: every journal prefix of histories containing the call.
pub fn run_crash(ops: &[Op], seed: u64, local: &mut Local) -> Check {
    let cfg = CrashCfg { torn: false, torn_only: false, recurse_every: None, suffix: true, check_contig: false, seed, suffix_variant: 0 };
    local.evals = local.evals.saturating_sub(1);
    let rec = record(ops)?;
    let mut stats = CrashStats { recoveries: 0 };
    enumerate(&rec, &cfg, local, &mut stats)
}

pub fn crash_history_strategy() -> impl Strategy<Value = Vec<Op>> {
    (prop::collection::vec(mut_op_strategy(), 0..12), prop::collection::vec(mut_op_strategy(), 0..4)).prop_map(|(mut a, mut b)| {
        a.push(Op::MakeReadOnly);
        a.append(&mut b);
        a
    })
}

pub fn run(ctx: &Ctx) {
    ctx.set_rule(
        "cases = (a) writer histories over H + make_read_only at generated positions (bounded-exhaustive over a 9-symbol alphabet, then \
         seeded-random), checking: refused appends / repeated make_read_only change neither files (byte comparison) nor observations; \
         after the first make_read_only no file contains the secret key or either 16-byte half of it (raw scan of all four files after \
         every later operation too), key_pair() has no secret, data equals the model, reopen is read-only with the same public key; \
         key pair + open(true) is rejected without touching files. (b) replicas after C03 sessions: make_read_only == Ok(false), \
         appends NotWritable, nothing changes. (c) every crash point of histories containing make_read_only (C02 machinery). \
         Non-trivial = make_read_only issued while >= 1 operation is only an oplog entry; crash points inside make_read_only; replica \
         sessions with >= 1 accepted proof.",
    );
    let l = ctx.tier.pick(4u32, 5u32);
    let n = crate::props::c01::seq_count(9, l);
    indexed_stage(ctx, "exhaustive", n, |i| crate::props::c01::seq_at(9, i).into_iter().map(alphabet9).collect::<Vec<Op>>(), |ops, local| run_history(ops, local));
    ctx.extra("exhaustive_stage", json!({"alphabet": ALPHABET9, "max_len": l, "sequences": n, "exhaustive": true}));
    random_stage(ctx, "random", ctx.tier.pick(40_000, 600_000), history_strategy, |ops: &Vec<Op>, local| run_history(ops, local));
    random_stage(ctx, "replicas", ctx.tier.pick(6_000, 100_000), || session_strategy(24), |ops: &Vec<SOp>, local| run_replica(ops, local));
    let seed = ctx.seed;
    random_stage(ctx, "crash-in-make-read-only", ctx.tier.pick(2_400, 40_000), crash_history_strategy, move |ops: &Vec<Op>, local| run_crash(ops, seed, local));
    let _ = Blk { len: 0, fill: 0 };
}

pub fn replay(case: &Value) -> Check {
    let mut l = Local::default();
    if let Ok(ops) = serde_json::from_value::<Vec<Op>>(case.clone()) {
        run_history(&ops, &mut l)?;
        if ops.contains(&Op::MakeReadOnly) {
            run_crash(&ops, 1, &mut l)?;
        }
        return Ok(());
    }
    let ops: Vec<SOp> = serde_json::from_value(case.clone()).map_err(|e| Failure::new("bad-replay", e.to_string()))?;
    run_replica(&ops, &mut l)
}
