//! C02 — a crash between any two storage operations recovers to the before-or-after state.

use crate::crash::*;
use crate::ops::*;
use crate::props::c01::{alphabet_op, seq_at, seq_count, ALPHABET};
use crate::runner::*;
use proptest::prelude::*;
use serde_json::{json, Value};

pub fn crash_history_strategy(max: usize) -> impl Strategy<Value = Vec<Op>> {
    let op = prop_oneof![
        200 => mut_op_strategy(),
        10 => Just(Op::MakeReadOnly),
        // batches whose oplog entry alone stays just below (830) or exceeds (900, 1000) the 64 KiB threshold that forces a flush, and one
        // that takes the log across the 252/253 varint boundary
        2 => prop_oneof![Just(Op::Big(830)), Just(Op::Big(251)), Just(Op::Big(900)), Just(Op::Big(1000))],
        // a batch that fills part of one 32-bit bitfield word
        4 => (9u32..=31).prop_map(Op::Big),
    ];
    prop::collection::vec(op, 0..max)
}

pub fn test_history(ops: &[Op], cfg: &CrashCfg, local: &mut Local) -> Check {
    let rec = record(ops)?;
    // evaluations count recoveries (crash states), not histories
    local.evals = local.evals.saturating_sub(1);
    let mut stats = CrashStats { recoveries: 0 };
    let r = enumerate(&rec, cfg, local, &mut stats);
    local.class_n("recoveries", stats.recoveries);
    local.class("histories");
    r
}

/// Crash chains: a random walk in which many calls of one history are cut short by a crash at a
/// generated point of their storage operations (biased towards "right after the call's first
/// write" and "right before its last operation", i.e. between header write and truncation), the
/// store is recovered, the before/after state is identified, and the history continues on the
/// recovered core. This reaches states that need three or more crashes in particular windows.
#[derive(Clone, Debug, PartialEq, Eq, Hash, serde::Serialize, serde::Deserialize)]
pub struct ChainStep {
    pub op: Op,
    /// None: the call completes. Some(x): crash inside the call at a point chosen by x.
    pub crash: Option<u16>,
}

pub fn chain_strategy() -> impl Strategy<Value = Vec<ChainStep>> {
    let blk = prop_oneof![3 => Just(crate::model::Blk { len: 1, fill: 7 }), 2 => Just(crate::model::Blk { len: 0, fill: 0 }), 2 => small_blk_strategy()];
    let op = prop_oneof![
        8 => blk.prop_map(Op::Append),
        2 => prop::collection::vec(small_blk_strategy(), 0..4).prop_map(Op::Batch),
        3 => clear_strategy(),
        2 => Just(Op::Reopen),
    ];
    let step = (op, prop::option::weighted(0.45, any::<u16>())).prop_map(|(op, crash)| ChainStep { op, crash });
    prop::collection::vec(step, 4..40)
}

pub fn run_chain(steps: &[ChainStep], local: &mut Local) -> Check {
    use crate::backend::{apply, Disk};
    use crate::model::sel;
    let disk = Disk::journaled();
    let mut sim = WSim::create(&disk, ObsPolicy::Full)?;
    let mut crashes = 0u32;
    let mut before_truncate = 0u32;
    for (k, st) in steps.iter().enumerate() {
        let Some(x) = st.crash else {
            sim.apply(&st.op).map_err(|f| Failure::new(format!("chain:{}", f.kind), format!("after {crashes} crash(es), step {k}: {}", f.detail)))?;
            continue;
        };
        if !st.op.is_mutating() {
            sim.apply(&st.op).map_err(|f| Failure::new(format!("chain:{}", f.kind), format!("after {crashes} crash(es), step {k}: {}", f.detail)))?;
            continue;
        }
        let before_files = disk.snapshot();
        let before_model = sim.model.clone();
        let b = disk.journal_len();
        sim.apply(&st.op).map_err(|f| Failure::new(format!("chain:{}", f.kind), format!("after {crashes} crash(es), step {k}: {}", f.detail)))?;
        let e = disk.journal_len();
        if e == b {
            continue;
        }
        let after_model = sim.model.clone();
        // crash point: 1/3 right after the first operation, 1/3 right before the last one, 1/3 anywhere
        let nops = e - b;
        let cut = match x % 3 {
            0 => b + 1.min(nops),
            1 => e - 1,
            _ => b + sel(x, nops as u64 + 1) as usize,
        };
        let mut files = before_files;
        {
            let j = disk.0.journal.lock().unwrap();
            for jop in &j[b..cut] {
                apply(&mut files, jop);
            }
            if cut < e && crate::crash::is_header_write(&j[cut - 1.min(cut - b)]) && cut > b {
                before_truncate += 1;
            }
        }
        sim.core = None;
        disk.set_files(files);
        crashes += 1;
        let ctxt = format!("crash #{crashes} at step {k} ({:?}) after {} of {} storage operations", st.op, cut - b, nops);
        let mut core = match crate::hc::open(&disk) {
            Ok(Ok(c)) => c,
            Ok(Err(err)) => return Err(Failure::new(format!("chain:recovery-open-error:{}", err_kind(&err)), format!("{ctxt}: reopen failed: {err}"))),
            Err(p) => return Err(panic_failure(&format!("{ctxt}: reopening"), &p)),
        };
        let upto = before_model.len().max(after_model.len()) + 3;
        let differ = crate::crash::differing_indices(&before_model, &after_model);
        let obs = crate::hc::observe_with(&mut core, upto, false, &differ).map_err(|p| panic_failure(&format!("{ctxt}: observing"), &p))?;
        let cands: Vec<&crate::model::ListModel> = if cut == b { vec![&before_model] } else if cut == e { vec![&after_model] } else { vec![&before_model, &after_model] };
        let mut matched = None;
        let mut diffs = vec![];
        for m in &cands {
            match obs_vs_model(&obs, m, false) {
                None => {
                    matched = Some((*m).clone());
                    break;
                }
                Some(d) => diffs.push(d),
            }
        }
        let Some(m) = matched else {
            return Err(Failure::new(
                "chain:recovery-neither-before-nor-after",
                format!("{ctxt}: recovered state matches none of the {} allowed states: {}", cands.len(), diffs.join(" | ")),
            ));
        };
        sim.core = Some(core);
        sim.model = m;
    }
    sim.observe_check(true, "chain-final").map_err(|f| Failure::new(format!("chain:{}", f.kind), format!("after {crashes} crash(es): {}", f.detail)))?;
    sim.apply(&Op::Reopen).map_err(|f| Failure::new(format!("chain:{}", f.kind), format!("after {crashes} crash(es), final reopen: {}", f.detail)))?;
    local.class("crash_chains");
    local.class_n("crashes_in_chains", crashes as u64);
    if crashes >= 3 {
        local.class("chains_with_three_or_more_crashes");
        local.nontrivial(&steps);
    }
    if before_truncate > 0 {
        local.class("chains_with_crash_right_after_a_header_write");
    }
    Ok(())
}

pub fn run(ctx: &Ctx) {
    ctx.set_rule(
        "evaluations = recoveries (crash states rebuilt, reopened and checked); for each generated history EVERY prefix of its journal of mutating storage operations (write/del/truncate \
         on the four stores) after creation is rebuilt, reopened with open(true), observed (length, byte length, fork, writeable, \
         has/get of every index <= length+2) and must equal the model before or after the call in progress (exactly 'after all \
         returned calls' at call boundaries); then a fixed usability suffix (appends, clears, reopens) runs against the model, and \
         for every 8th crash point every crash point inside that suffix is enumerated too. classes.recoveries counts recoveries. A further stage runs crash chains: a random walk in which \
         about 45% of the calls of a history are cut short by a crash (right after the call's first storage operation, right before \
         its last one, or anywhere), the recovered state is matched against before/after and the history continues on it. \
         Non-trivial crash point = strictly inside a call that issues >= 2 mutating storage operations while >= 1 earlier call is \
         persisted only as an oplog entry; distinct = (journal length, prefix, call, unflushed count).",
    );
    ctx.assume("each storage operation is atomic and durable in issue order (given by the statement)");
    ctx.assume("crashes before the first build() has returned are outside the statement (no acknowledged state yet)");
    let cfg = CrashCfg { torn: false, torn_only: false, recurse_every: Some(8), suffix: true, check_contig: false, seed: ctx.seed, suffix_variant: 0 };
    // exhaustive: alphabet of C01 without the pure reads
    let l = ctx.tier.pick(4u32, 5u32);
    let n = seq_count(8, l);
    indexed_stage(
        ctx,
        "exhaustive",
        n,
        |i| seq_at(8, i).into_iter().map(alphabet_op).collect::<Vec<Op>>(),
        |ops, local| test_history(ops, &cfg, local),
    );
    ctx.extra("exhaustive_stage", json!({"alphabet": ALPHABET, "max_len": l, "sequences": n, "exhaustive": true}));
    random_stage(ctx, "random", ctx.tier.pick(2_000, 40_000), || crash_history_strategy(25), |ops: &Vec<Op>, local| {
        test_history(ops, &cfg, local)
    });
    crate::props::repl_crash::run_replica_stage(ctx, &cfg, ctx.tier.pick(600, 12_000));
    random_stage(ctx, "crash-chains", ctx.tier.pick(20_000, 500_000), chain_strategy, |steps: &Vec<ChainStep>, local| run_chain(steps, local));
}

pub fn replay(case: &Value) -> Check {
    if case.get("session").is_some() {
        return crate::props::repl_crash::replay(case, false);
    }
    if let Ok(steps) = serde_json::from_value::<Vec<ChainStep>>(case.clone()) {
        if !steps.is_empty() {
            let mut l = Local::default();
            return run_chain(&steps, &mut l);
        }
    }
    let ops: Vec<Op> = serde_json::from_value(case.clone()).map_err(|e| Failure::new("bad-replay", e.to_string()))?;
    let cfg = CrashCfg { torn: false, torn_only: false, recurse_every: Some(8), suffix: true, check_contig: false, seed: 1, suffix_variant: 0 };
    let mut l = Local::default();
    test_history(&ops, &cfg, &mut l)
}
