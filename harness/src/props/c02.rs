//! C02 — a crash between any two storage operations recovers to the before-or-after state.

use crate::crash::*;
use crate::ops::*;
use crate::props::c01::{alphabet_op, seq_at, seq_count, ALPHABET};
use crate::runner::*;
use proptest::prelude::*;
use serde_json::{json, Value};

pub fn crash_history_strategy(max: usize) -> impl Strategy<Value = Vec<Op>> {
    let op = prop_oneof![
        200 => mut_op_strategy(),
        10 => Just(Op::MakeReadOnly),
        // a batch whose oplog entry alone exceeds the 64 KiB threshold that forces a flush, and one
        // that takes the log across the 252/253 varint boundary
        1 => prop_oneof![Just(Op::Big(830)), Just(Op::Big(251))],
    ];
    prop::collection::vec(op, 0..max)
}

pub fn test_history(ops: &[Op], cfg: &CrashCfg, local: &mut Local) -> Check {
    let rec = record(ops)?;
    // evaluations count recoveries (crash states), not histories
    local.evals = local.evals.saturating_sub(1);
    let mut stats = CrashStats { recoveries: 0 };
    let r = enumerate(&rec, cfg, local, &mut stats);
    local.class_n("recoveries", stats.recoveries);
    local.class("histories");
    r
}

pub fn run(ctx: &Ctx) {
    ctx.set_rule(
        "evaluations = recoveries (crash states rebuilt, reopened and checked); for each generated history EVERY prefix of its journal of mutating storage operations (write/del/truncate \
         on the four stores) after creation is rebuilt, reopened with open(true), observed (length, byte length, fork, writeable, \
         has/get of every index <= length+2) and must equal the model before or after the call in progress (exactly 'after all \
         returned calls' at call boundaries); then a fixed usability suffix (appends, clears, reopens) runs against the model, and \
         for every 8th crash point every crash point inside that suffix is enumerated too. classes.recoveries counts recoveries. \
         Non-trivial crash point = strictly inside a call that issues >= 2 mutating storage operations while >= 1 earlier call is \
         persisted only as an oplog entry; distinct = (journal length, prefix, call, unflushed count).",
    );
    ctx.assume("each storage operation is atomic and durable in issue order (given by the statement)");
    ctx.assume("crashes before the first build() has returned are outside the statement (no acknowledged state yet)");
    let cfg = CrashCfg { torn: false, torn_only: false, recurse_every: Some(8), suffix: true, check_contig: false, seed: ctx.seed };
    // exhaustive: alphabet of C01 without the pure reads
    let l = ctx.tier.pick(4u32, 5u32);
    let n = seq_count(8, l);
    indexed_stage(
        ctx,
        "exhaustive",
        n,
        |i| seq_at(8, i).into_iter().map(alphabet_op).collect::<Vec<Op>>(),
        |ops, local| test_history(ops, &cfg, local),
    );
    ctx.extra("exhaustive_stage", json!({"alphabet": ALPHABET, "max_len": l, "sequences": n, "exhaustive": true}));
    random_stage(ctx, "random", ctx.tier.pick(2_000, 40_000), || crash_history_strategy(25), |ops: &Vec<Op>, local| {
        test_history(ops, &cfg, local)
    });
    crate::props::repl_crash::run_replica_stage(ctx, &cfg, ctx.tier.pick(600, 12_000));
}

pub fn replay(case: &Value) -> Check {
    if case.get("session").is_some() {
        return crate::props::repl_crash::replay(case, false);
    }
    let ops: Vec<Op> = serde_json::from_value(case.clone()).map_err(|e| Failure::new("bad-replay", e.to_string()))?;
    let cfg = CrashCfg { torn: false, torn_only: false, recurse_every: Some(8), suffix: true, check_contig: false, seed: 1 };
    let mut l = Local::default();
    test_history(&ops, &cfg, &mut l)
}
