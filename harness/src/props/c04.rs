//! C04 — forged or altered proofs never change what a replica believes.

use crate::backend::{Disk, Files};
use crate::exec::{block_on, catch};
use crate::hc::{self, Obs};
use crate::model::{sel, ReplicaModel};
use crate::mutate::*;
use crate::ops::*;
use crate::props::c03::exhaustive_sessions;
use crate::repl::*;
use crate::runner::*;
use hypercore::{Proof, RequestUpgrade};
use proptest::prelude::*;
use serde::{Deserialize, Serialize};
use serde_json::{json, Value};

#[derive(Clone, Debug, PartialEq, Eq, Hash, Serialize, Deserialize)]
pub struct Attack {
    pub session: Vec<SOp>,
    /// which request (selector over the R ops) is attacked
    pub which: u16,
    /// seed for the random multi-alteration combinations
    pub combo_seed: u64,
}

pub fn attack_strategy() -> impl Strategy<Value = Attack> {
    (session_strategy(30), any::<u16>(), any::<u64>()).prop_map(|(session, which, combo_seed)| Attack { session, which, combo_seed })
}

#[derive(Default)]
pub struct AttackStats {
    pub refused: u64,
    pub accepted: u64,
    pub excluded_unauthenticated: u64,
}

struct Point<'a> {
    snapshot: &'a Files,
    rm: &'a ReplicaModel,
    before: &'a Obs,
    upto: u64,
}

/// Apply one altered/forged proof to a fresh copy of the replica and check the oracle.
fn attack_one(sim: &mut RSim, pt: &Point, proof: &Proof, what: &str, n: u64, local: &mut Local, stats: &mut AttackStats) -> Check {
    let step = sim.step;
    let disk = Disk::from_files(pt.snapshot.clone());
    let mut r = match hc::open(&disk) {
        Ok(Ok(c)) => c,
        Ok(Err(e)) => return Err(fail_at(step, format!("replica-reopen-error:{}", err_kind(&e)), format!("opening the replica snapshot failed: {e}"))),
        Err(p) => return Err(panic_failure(&format!("session step {step}: opening the replica snapshot"), &p)),
    };
    let res = catch(|| block_on(r.verify_and_apply_proof(proof)))
        .map_err(|p| panic_failure(&format!("session step {step}: verify_and_apply_proof of {what}"), &p))?;
    let after = hc::observe(&mut r, pt.upto, false).map_err(|p| panic_failure(&format!("session step {step}: observing after {what}"), &p))?;
    let accepted = matches!(res, Ok(true));
    if !accepted {
        stats.refused += 1;
        if let Some(d) = pt.before.diff(&after) {
            return Err(fail_at(step, "refused-proof-changed-observation", format!("{what} was refused ({res:?}) but the replica's observation changed: {d}")));
        }
        if disk.snapshot() != *pt.snapshot {
            // storage changed although refused: what a reopened replica sees must not change
            drop(r);
            let mut r2 = match hc::open(&disk) {
                Ok(Ok(c)) => c,
                Ok(Err(e)) => return Err(fail_at(step, "refused-proof-broke-storage", format!("{what} was refused but the replica no longer reopens: {e}"))),
                Err(p) => return Err(panic_failure(&format!("session step {step}: reopening after refused {what}"), &p)),
            };
            let after2 = hc::observe(&mut r2, pt.upto, false).map_err(|p| panic_failure("observing", &p))?;
            if let Some(d) = pt.before.diff(&after2) {
                return Err(fail_at(step, "refused-proof-changed-stored-state", format!("{what} was refused ({res:?}) but after reopen the observation changed: {d}")));
            }
            local.class("refused_but_storage_touched");
        }
        if n % 16 != 0 {
            return Ok(());
        }
        // sample: honest convergence still completes from the (unchanged) state
        let r2 = match hc::open(&disk) {
            Ok(Ok(c)) => c,
            _ => return Err(fail_at(step, "refused-proof-broke-storage", format!("{what}: replica no longer reopens"))),
        };
        return converge(sim, disk, r2, pt.rm.clone(), what, local);
    }
    stats.accepted += 1;
    let name: String = what.split(|c: char| !c.is_alphanumeric() && c != ' ').next().unwrap_or("").chars().take(40).collect();
    let name2: String = what.split_whitespace().take(3).collect::<Vec<_>>().join(" ");
    let _ = name;
    if std::env::var("HCV_DEBUG_ACCEPT").map(|v| what.contains(&v)).unwrap_or(false) {
        eprintln!("ACCEPTED {what}\n  proof {:?}\n  before len {} after len {}", PProof::from_proof(proof), pt.before.length, after.length);
    }
    local.class(&format!("accepted:{}", name2.split(|c| c == '{' || c == '(').next().unwrap_or("").trim()));
    // Accepted: everything held must be the writer's, (length, byte length) must be signed
    if after.fork != 0 {
        return Err(fail_at(step, "accepted-forged-fork", format!("{what} accepted and fork became {}", after.fork)));
    }
    if !sim.whistory.contains(&(after.length, after.byte_length)) {
        return Err(fail_at(
            step,
            "accepted-unsigned-length",
            format!("{what} accepted: replica now reports length {} / byte length {} which the writer never had (history {:?})", after.length, after.byte_length, sim.whistory),
        ));
    }
    let mut held = std::collections::BTreeSet::new();
    for (i, has, get) in &after.blocks {
        if *has {
            let exp = sim.wblocks.get(*i as usize);
            match (get, exp) {
                (Ok(Some(v)), Some(e)) if v == e => {
                    held.insert(*i);
                }
                _ => {
                    return Err(fail_at(
                        step,
                        "accepted-forged-data",
                        format!("{what} accepted: replica holds block {i} = {} but the writer's block is {:?}", hc::brief_get(get), exp.map(|e| hc::brief_bytes(e))),
                    ))
                }
            }
        }
    }
    for i in &pt.rm.held {
        if !held.contains(i) {
            return Err(fail_at(step, "accepted-proof-lost-block", format!("{what} accepted: previously held block {i} is gone")));
        }
    }
    let rm = ReplicaModel { length: after.length, byte_length: after.byte_length, held };
    converge(sim, disk, r, rm, what, local)
}

/// Run the honest convergence loop from the given replica state (temporarily swapped into the sim).
fn converge(sim: &mut RSim, disk: Disk, r: hypercore::Hypercore, rm: ReplicaModel, what: &str, local: &mut Local) -> Check {
    let old_disk = std::mem::replace(&mut sim.rdisk, disk);
    let old_r = std::mem::replace(&mut sim.r, Some(r));
    let old_rm = std::mem::replace(&mut sim.rm, rm);
    let mut scratch = Local::default();
    // second step: on the state an accepted altered proof left behind, value-forged block proofs
    // (honest proof for the replica's present state with one flipped byte in the value) must still
    // be refused - an accepted alteration must not have planted nodes that a later forgery can lean on
    let mut second: Check = Ok(());
    if !what.starts_with("honest") && !what.starts_with("second") {
        let wl = sim.wlen();
        let mut cands: Vec<u64> = (0..wl).filter(|i| sim.w.model.has(*i)).collect();
        if cands.len() > 4 {
            cands = vec![cands[0], cands[cands.len() / 2], cands[cands.len() - 2], cands[cands.len() - 1]];
        }
        for i in cands {
            let req = Req { target: Target::BlockAt(i), upgrade: Upg::Full, seek: Seek::None };
            let Ok(Ok(c)) = sim.resolve(&req) else { continue };
            let Ok(Ok(Some(p))) = sim.writer_proof(&c) else { continue };
            let mut q = PProof::from_proof(&p);
            if let Some(b) = &mut q.block {
                if b.value.is_empty() {
                    b.value.push(1);
                } else {
                    b.value[0] ^= 0x80;
                }
            }
            let files = sim.rdisk.snapshot();
            let d2 = Disk::from_files(files);
            let Ok(Ok(mut r2)) = hc::open(&d2) else { continue };
            let res = catch(|| block_on(r2.verify_and_apply_proof(&q.to_proof())));
            local.class("second_step_forgeries");
            match res {
                Ok(Ok(true)) => {
                    let got = catch(|| block_on(r2.get(i)));
                    if !matches!(&got, Ok(Ok(Some(v))) if *v == sim.wblocks[i as usize]) {
                        second = Err(fail_at(sim.step, "accepted-forged-data:second-step", format!("after {what} was accepted, a value-forged proof for block {i} was accepted too and the replica now reads {:?}", got.ok().and_then(|g| g.ok()).map(|g| g.map(|v| hc::brief_bytes(&v))))));
                        break;
                    }
                }
                Ok(_) => {}
                Err(p) => {
                    second = Err(panic_failure(&format!("second-step forgery for block {i} after {what}"), &p));
                    break;
                }
            }
        }
    }
    let res = second.and_then(|_| sim.sync_all(&mut scratch)).and_then(|_| sim.replica_reopen());
    sim.rdisk = old_disk;
    sim.r = old_r;
    sim.rm = old_rm;
    local.class("convergence_checked");
    res.map_err(|f| Failure::new(format!("after-{}:{}", if what.starts_with("honest") { "honest" } else { "attack" }, f.kind), format!("honest replication after {what} did not complete: {}", f.detail)))
}

fn substitute(b: &[u8], variant: u8) -> Vec<u8> {
    let mut v = b.to_vec();
    match variant {
        0 => {
            if v.is_empty() {
                v.push(1)
            } else {
                v[0] ^= 0xff
            }
        }
        _ => v.push(0x33),
    }
    v
}

/// All attacks on the honest proof for request `c` at the current state of `sim`.
#[allow(clippy::too_many_arguments)]
fn attack_point(
    sim: &mut RSim,
    c: &ConcreteReq,
    honest: &Proof,
    earlier: &[Proof],
    sigs: &[(u64, Vec<u8>)],
    combo_seed: u64,
    local: &mut Local,
    stats: &mut AttackStats,
) -> Check {
    let step = sim.step;
    let snapshot = sim.rdisk.snapshot();
    let rm = sim.rm.clone();
    let upto = sim.wlen() + 3;
    // observation of the replica before (on a copy, so event/caches of the main line are untouched)
    let before = {
        let d = Disk::from_files(snapshot.clone());
        let mut r = match hc::open(&d) {
            Ok(Ok(c)) => c,
            Ok(Err(e)) => return Err(fail_at(step, format!("replica-reopen-error:{}", err_kind(&e)), format!("opening the replica snapshot failed: {e}"))),
            Err(p) => return Err(panic_failure("opening the replica snapshot", &p)),
        };
        hc::observe(&mut r, upto, false).map_err(|p| panic_failure("observing the replica snapshot", &p))?
    };
    let pt = Point { snapshot: &snapshot, rm: &rm, before: &before, upto };
    let pp = PProof::from_proof(honest);
    let mut n = 0u64;
    // (a) complete single-field alteration set
    let (alts, excluded) = alterations(&pp);
    stats.excluded_unauthenticated += excluded;
    for a in &alts {
        let mut q = pp.clone();
        if !apply_alt(&mut q, a) || q == pp {
            continue;
        }
        n += 1;
        local.evals += 1;
        if !a.harmless_class() {
            local.nontrivial(&(hash_of(&pp), a));
        }
        attack_one(sim, &pt, &q.to_proof(), &format!("altered proof {a:?} of request {c:?}"), n, local, stats)?;
    }
    local.class_n("single_field_alterations", n);
    // (b) random combinations of 2-4 alterations
    let mut rng = small_rng(combo_seed, hash_of(&pp));
    if !alts.is_empty() {
        for _ in 0..8 {
            let k = 2 + (rng() % 3) as usize;
            let mut q = pp.clone();
            let mut used = vec![];
            for _ in 0..k {
                let a = &alts[(rng() % alts.len() as u64) as usize];
                if apply_alt(&mut q, a) {
                    used.push(a.clone());
                }
            }
            if q == pp || used.iter().all(|a| a.harmless_class()) {
                continue;
            }
            n += 1;
            local.evals += 1;
            local.class("combined_alterations");
            local.nontrivial(&(hash_of(&pp), &used));
            attack_one(sim, &pt, &q.to_proof(), &format!("proof with combined alterations {used:?} of request {c:?}"), n, local, stats)?;
        }
    }
    // (c) systematic forgeries
    // c1/c2: a second writer (other key) with one substituted block answering the same request
    let wl = sim.wlen();
    if wl > 0 {
        let k = c.block.as_ref().map(|b| b.index).unwrap_or_else(|| (combo_seed % wl).min(wl - 1));
        for variant in 0..2u8 {
            let fdisk = Disk::new();
            let mut forged = WSim::create_with_key(&fdisk, ObsPolicy::Windowed, hc::other_keypair())?;
            let blocks: Vec<Vec<u8>> = sim.wblocks.iter().enumerate().map(|(i, b)| if i as u64 == k { substitute(b, variant) } else { b.clone() }).collect();
            let fcore = forged.core();
            let fp = catch(|| {
                block_on(fcore.append_batch(&blocks))?;
                block_on(fcore.create_proof(c.block.clone(), c.hash.clone(), c.seek.clone(), c.upgrade.clone()))
            })
            .map_err(|p| panic_failure("forged writer", &p))?;
            let Ok(Some(fp)) = fp else { continue };
            let fpp = PProof::from_proof(&fp);
            let mut cands: Vec<(String, PProof)> = vec![("whole proof from a different writer (other key, substituted block)".into(), fpp.clone())];
            if fpp.block.is_some() || fpp.hash.is_some() {
                let mut q = pp.clone();
                q.block = fpp.block.clone();
                q.hash = fpp.hash.clone();
                cands.push(("substituted block with consistently recomputed parents under the genuine upgrade/signature".into(), q));
            }
            if let (Some(fu), Some(gu)) = (&fpp.upgrade, &pp.upgrade) {
                let mut q = fpp.clone();
                q.upgrade.as_mut().unwrap().signature = gu.signature.clone();
                cands.push(("forged writer's proof carrying the genuine signature".into(), q));
                let mut q = pp.clone();
                q.upgrade.as_mut().unwrap().signature = fu.signature.clone();
                cands.push(("genuine proof carrying the other key's signature".into(), q));
                // the signature the replica itself holds (the writer's for the replica's current
                // length) replayed on the forged writer's upgrade
                if let Some((_, held)) = sigs.iter().find(|(l, _)| *l == rm.length && rm.length > 0) {
                    let mut q = fpp.clone();
                    q.upgrade.as_mut().unwrap().signature = held.clone();
                    cands.push(("forged writer's proof carrying the signature the replica already holds".into(), q));
                }
            }
            for (what, q) in cands {
                if q == pp {
                    continue;
                }
                n += 1;
                local.evals += 1;
                local.class("systematic_forgeries");
                local.nontrivial(&(hash_of(&pp), &what, variant));
                attack_one(sim, &pt, &q.to_proof(), &format!("{what} (block {k}, variant {variant}) for request {c:?}"), n, local, stats)?;
            }
        }
    }
    // c5: section grafts - sections of two different proofs combined into one: a forged block section
    // attached to an honest proof that has none (hash-only, upgrade-only, seek-only), with empty nodes
    // and with the honest nodes of the writer's own proof for that block
    if pp.block.is_none() && wl > 0 {
        let rl = rm.length;
        let covered_after = if pp.upgrade.is_some() { wl } else { rl };
        let mut idxs: Vec<u64> = vec![0, rl.saturating_sub(1), rl, rl + 1, covered_after.saturating_sub(1)];
        if let Some(h) = &pp.hash {
            if h.index % 2 == 0 {
                idxs.push(h.index / 2);
            }
            idxs.push(crate::reftree::left_span(h.index) / 2);
        }
        idxs.retain(|i| *i < wl);
        idxs.sort();
        idxs.dedup();
        for i in idxs {
            let genuine = sim.wblocks[i as usize].clone();
            let honest_nodes: Vec<PNode> = {
                let w = sim.w.core();
                let up = c.upgrade.clone();
                match catch(|| block_on(w.create_proof(Some(hypercore::RequestBlock { index: i, nodes: 0 }), None, None, up))) {
                    Ok(Ok(Some(p))) => PProof::from_proof(&p).block.map(|b| b.nodes).unwrap_or_default(),
                    _ => vec![],
                }
            };
            for (vi, value) in [substitute(&genuine, 0), substitute(&genuine, 1)].into_iter().enumerate() {
                for (ni, nodes) in [vec![], honest_nodes.clone()].into_iter().enumerate() {
                    if ni == 1 && nodes.is_empty() {
                        continue;
                    }
                    let mut q = pp.clone();
                    q.block = Some(PBlock { index: i, value: value.clone(), nodes });
                    n += 1;
                    local.evals += 1;
                    local.class("section_grafts");
                    local.nontrivial(&(hash_of(&pp), "graft-block", i, vi, ni));
                    attack_one(sim, &pt, &q.to_proof(), &format!("honest proof for {c:?} with a forged block section grafted on (block {i}, value variant {vi}, {} nodes)", if ni == 0 { "no" } else { "honest" }), n, local, stats)?;
                }
            }
        }
    }
    // c6: a fabricated seek section grafted onto an honest proof: a short chain that names a tree
    // node the replica already stores (leaf of a held block, its sibling or parent) with a wrong size
    // and/or hash. If it is stored without being verified, later reads of held blocks go wrong.
    if pp.seek.is_none() {
        let mut targets: Vec<u64> = vec![];
        for j in rm.held.iter().take(3) {
            targets.push(2 * j);
            targets.push(crate::reftree::sibling(2 * j));
            targets.push(crate::reftree::parent(2 * j));
        }
        if let Some(b) = &pp.block {
            targets.push(2 * b.index);
            for nd in b.nodes.iter().take(2) {
                targets.push(nd.index);
            }
        }
        targets.sort();
        targets.dedup();
        let reft = crate::reftree::RefTree::from_blocks(&sim.wblocks);
        for x in targets {
            let Some(g) = reft.get(x).copied() else { continue };
            for variant in 0..2u8 {
                // NB: a ONE-node chain with the genuine hash and only the size changed is exactly the
                // "size field of the bottom node of a seek section" that the statement excludes (nothing
                // in the scheme covers it); it is not generated (counted as excluded).
                let nodes = if variant == 0 {
                    // two-node chain: the parent hash covers the sum of the sizes
                    let Some(sib) = reft.get(crate::reftree::sibling(x)).copied() else { continue };
                    vec![PNode { index: x, size: g.size + 1, hash: g.hash.to_vec() }, PNode { index: sib.index, size: sib.size, hash: sib.hash.to_vec() }]
                } else {
                    vec![PNode { index: x, size: g.size, hash: vec![0x6b; 32] }]
                };
                stats.excluded_unauthenticated += 1;
                let mut q = pp.clone();
                q.seek = Some(PSeek { bytes: 0, nodes });
                n += 1;
                local.evals += 1;
                local.class("section_grafts");
                local.nontrivial(&(hash_of(&pp), "graft-seek", x, variant));
                attack_one(sim, &pt, &q.to_proof(), &format!("honest proof for {c:?} with a fabricated one-node seek section naming stored tree node {x} ({})", if variant == 0 { "two-node chain, bottom size + 1" } else { "one node, other hash" }), n, local, stats)?;
            }
        }
    }
    // a hash section of an earlier honest proof grafted onto a block proof
    if pp.block.is_some() && pp.hash.is_none() {
        for old in earlier.iter().rev().filter(|p| p.hash.is_some()).take(2) {
            let mut q = pp.clone();
            q.hash = PProof::from_proof(old).hash;
            n += 1;
            local.evals += 1;
            local.class("section_grafts");
            attack_one(sim, &pt, &q.to_proof(), &format!("honest block proof for {c:?} with the hash section of an earlier proof grafted on"), n, local, stats)?;
        }
    }
    // c3: genuine proof with the genuine writer's signature for another length
    if let Some(gu) = &pp.upgrade {
        // the signature for the replica's own length first, then up to three others
        let own: Vec<&(u64, Vec<u8>)> = sigs.iter().filter(|(l, s)| *l == rm.length && *s != gu.signature).take(1).collect();
        for (len, sig) in own.into_iter().chain(sigs.iter().filter(|(l, s)| *s != gu.signature && *l != rm.length).take(3)) {
            let mut q = pp.clone();
            q.upgrade.as_mut().unwrap().signature = sig.clone();
            n += 1;
            local.evals += 1;
            local.class("systematic_forgeries");
            local.nontrivial(&(hash_of(&pp), "sig-other-length", len));
            attack_one(sim, &pt, &q.to_proof(), &format!("genuine proof with the writer's signature for length {len} for request {c:?}"), n, local, stats)?;
        }
    }
    // c4: genuine older proofs replayed
    for (i, old) in earlier.iter().rev().take(4).enumerate() {
        n += 1;
        local.evals += 1;
        local.class("replayed_older_proofs");
        attack_one(sim, &pt, old, &format!("replay of the genuine proof accepted {} requests earlier", i + 1), n, local, stats)?;
    }
    Ok(())
}

pub fn run_attack(atk: &Attack, local: &mut Local) -> Check {
    let mut sim = RSim::new(Disk::new())?;
    let n_req = atk.session.iter().filter(|o| matches!(o, SOp::R(_))).count() as u64;
    let target = if n_req == 0 { 0 } else { sel(atk.which, n_req) };
    let mut seen = 0u64;
    let mut attacked = false;
    let mut earlier: Vec<Proof> = vec![];
    let mut sigs: Vec<(u64, Vec<u8>)> = vec![];
    let mut stats = AttackStats::default();
    // evaluations are counted per altered proof, not per session
    local.evals = local.evals.saturating_sub(1);
    for op in &atk.session {
        if let SOp::R(req) = op {
            if !attacked && seen >= target {
                if let Ok(c) = sim.resolve(req)? {
                    if let Ok(Some(honest)) = sim.writer_proof(&c)? {
                        let blocked = c.block.as_ref().map(|b| !sim.w.model.has(b.index)).unwrap_or(false);
                        if !blocked {
                            attack_point(&mut sim, &c, &honest, &earlier, &sigs, atk.combo_seed, local, &mut stats)?;
                            attacked = true;
                        }
                    }
                }
            }
            seen += 1;
        }
        let before_len = sim.wlen();
        sim.apply(op, local)?;
        if let (SOp::R(_), Some(p)) = (op, sim.last_proof.take()) {
            earlier.push(p);
        }
        if sim.wlen() != before_len {
            let len = sim.wlen();
            let w = sim.w.core();
            if let Ok(Ok(Some(p))) = catch(|| block_on(w.create_proof(None, None, None, Some(RequestUpgrade { start: 0, length: len })))) {
                if let Some(u) = p.upgrade {
                    sigs.push((len, u.signature));
                }
            }
        }
    }
    local.class("attack_sessions");
    if attacked {
        local.class("attack_sessions_with_attacked_proof");
    }
    local.class_n("altered_proofs_refused", stats.refused);
    local.class_n("altered_proofs_accepted", stats.accepted);
    local.class_n("excluded_unauthenticated_size_fields", stats.excluded_unauthenticated);
    Ok(())
}

pub fn run(ctx: &Ctx) {
    ctx.set_rule(
        "evaluations = altered/forged proofs applied to a replica snapshot. For sessions as in C03 one honest proof per session is \
         attacked with (a) the complete single-field alteration set (value bit flips/extension/truncation, one flipped bit per node \
         hash, signature flips and length change, +/-1 on every index/size/start/length/fork/seek.bytes below 2^40, node \
         drop/dup/swap/insert at every position, removal of each section; the size fields of the bottom node of a hash-only section \
         and of a seek section are excluded by construction and counted), (b) random combinations of 2-4 alterations, (c) systematic \
         forgeries (second writer with another key and a substituted block: whole proof, block section only, signatures exchanged; \
         the genuine writer's signature for another length; older genuine proofs replayed; section grafts: a forged block section \
         attached to an honest hash-/upgrade-/seek-only proof, a foreign hash section attached to a block proof). Oracle: refused => observation and \
         stored state unchanged; accepted => every held block equals the writer's, (length, byte length) is a pair the writer \
         signed, and honest replication still converges. Non-trivial = alteration of an authenticated field (everything except \
         seek.bytes and section removal); distinct = (honest proof, alteration).",
    );
    let nmax = ctx.tier.pick(6u64, 9u64);
    let sessions = exhaustive_sessions(nmax);
    let n = sessions.len() as u64;
    indexed_stage(
        ctx,
        "exhaustive-last-request",
        n,
        |i| Attack { session: sessions[i as usize].clone(), which: 0xffff, combo_seed: i },
        run_attack,
    );
    ctx.extra("exhaustive_stage", json!({"growth_pairs_up_to": nmax, "sessions_attacked_at_last_request": n, "exhaustive": true}));
    random_stage(ctx, "random", ctx.tier.pick(8_000, 40_000), attack_strategy, |a: &Attack, local| run_attack(a, local));
}

pub fn replay(case: &Value) -> Check {
    let a: Attack = serde_json::from_value(case.clone()).map_err(|e| Failure::new("bad-replay", e.to_string()))?;
    let mut l = Local::default();
    run_attack(&a, &mut l)
}
