//! C06 — storage files are readable and writable per the JavaScript on-disk layout.

use crate::backend::{Disk, Files, BITFIELD, DATA, OPLOG, TREE};
use crate::crash::obs_vs_model;
use crate::exec::{block_on, catch};
use crate::hc::{self, TEST_SECRET_KEY_BYTES};
use crate::model::Blk;
use crate::ops::*;
use crate::refstore::*;
use crate::repl::*;
use crate::runner::*;
use hypercore::{Hypercore, HypercoreBuilder, Storage};
use proptest::prelude::*;
use serde_json::{json, Value};
use sha2::{Digest, Sha256};

// ------------------------------------------------------------------ direction 1

/// The reference reader's reconstruction must equal what the API reports.
pub fn check_layout(files: &Files, core: &mut Hypercore, ctxt: &str, local: &mut Local) -> Check {
    let rec = read_store(files).map_err(|e| Failure::new("layout-unreadable", format!("{ctxt}: a reader of the JavaScript layout cannot reconstruct the state: {e}")))?;
    let r = catch(|| -> Check {
        let info = core.info();
        let f = |what: &str, d: String| Err(Failure::new(format!("layout-mismatch:{what}"), format!("{ctxt}: {d}")));
        if rec.length != info.length {
            return f("length", format!("files say length {} but the API reports {}", rec.length, info.length));
        }
        if rec.fork != info.fork {
            return f("fork", format!("files say fork {} but the API reports {}", rec.fork, info.fork));
        }
        if rec.byte_length != info.byte_length {
            return f("byte_length", format!("sum of root sizes in the files is {} but the API reports {}", rec.byte_length, info.byte_length));
        }
        if rec.writeable != info.writeable {
            return f("writeable", format!("files carry a secret key: {} but the API reports writeable {}", rec.writeable, info.writeable));
        }
        if rec.public_key != core.key_pair().public.to_bytes() {
            return f("public_key", "public key in the files differs from the API's".into());
        }
        for i in 0..info.length + 3 {
            let has = core.has(i);
            if has != rec.held.contains(&i) {
                return f("held", format!("bitfield in the files says block {i} held: {} but has({i}) = {has}", rec.held.contains(&i)));
            }
            if has {
                match block_on(core.get(i)) {
                    Ok(Some(v)) => {
                        if Some(&v) != rec.blocks.get(&i) {
                            return f(
                                "block_bytes",
                                format!("block {i}: the files yield {:?} but get({i}) = {}", rec.blocks.get(&i).map(|b| hc::brief_bytes(b)), hc::brief_bytes(&v)),
                            );
                        }
                    }
                    other => return f("block_bytes", format!("get({i}) = {other:?} for a held block")),
                }
            }
        }
        Ok(())
    });
    for k in &rec.entry_kinds {
        local.class(&format!("boundary_entry_kind:{k}"));
    }
    if rec.entry_kinds.iter().any(|k| *k != "append-or-block+upgrade") {
        local.nontrivial(&(hash_of(&files[OPLOG]), rec.entries));
    }
    local.class("boundaries_dumped");
    if rec.current_slot == 2 {
        local.class("boundaries_with_slot2_current");
    }
    match r {
        Ok(c) => c,
        Err(p) => Err(panic_failure(ctxt, &p)),
    }
}

pub fn run_writer_history(ops: &[Op], local: &mut Local) -> Check {
    let disk = Disk::new();
    let mut sim = WSim::create(&disk, ObsPolicy::Windowed)?;
    local.evals = local.evals.saturating_sub(1);
    check_layout(&disk.snapshot(), sim.core(), "after creation", local)?;
    for (k, op) in ops.iter().enumerate() {
        sim.apply(op)?;
        local.evals += 1;
        check_layout(&disk.snapshot(), sim.core(), &format!("after op {k} {op:?}"), local)?;
    }
    Ok(())
}

pub fn run_session(ops: &[SOp], local: &mut Local) -> Check {
    let mut sim = RSim::new(Disk::new())?;
    let mut scratch = Local::default();
    local.evals = local.evals.saturating_sub(1);
    for (k, op) in ops.iter().enumerate() {
        sim.apply(op, &mut scratch)?;
        local.evals += 1;
        match op {
            SOp::W(_) => {
                let files = sim.wdisk.snapshot();
                check_layout(&files, sim.w.core(), &format!("writer after step {k} {op:?}"), local)?;
            }
            _ => {
                let files = sim.rdisk.snapshot();
                check_layout(&files, sim.replica(), &format!("replica after step {k} {op:?}"), local)?;
            }
        }
    }
    Ok(())
}

// ------------------------------------------------------------------ golden scenario

pub fn scratch_dir(tag: &str) -> std::path::PathBuf {
    use std::sync::atomic::{AtomicU64, Ordering};
    static N: AtomicU64 = AtomicU64::new(0);
    let base = if std::path::Path::new("/dev/shm").is_dir() { std::path::PathBuf::from("/dev/shm") } else { std::env::temp_dir() };
    let d = base.join(format!("hcv-{}-{}-{}", std::process::id(), tag, N.fetch_add(1, Ordering::SeqCst)));
    let _ = std::fs::remove_dir_all(&d);
    std::fs::create_dir_all(&d).expect("create scratch dir");
    d
}

fn sha_file(p: &std::path::Path) -> Option<String> {
    let b = std::fs::read(p).ok()?;
    if b.is_empty() {
        return None;
    }
    let mut h = Sha256::new();
    h.update(&b);
    Some(format!("{:X}", h.finalize()))
}

const GOLDEN: [[Option<&str>; 4]; 5] = [
    // bitfield, data, oplog, tree
    [None, None, Some("A30BD5326139E8650F3D53CB43291945AE92796ABAEBE1365AC1B0C37D008936"), None],
    [
        Some("0E2E1FF956A39192CBB68D2212288FE75B32733AB0C442B9F0471E254A0382A2"),
        Some("872E4E50CE9990D8B041330C47C9DDD11BEC6B503AE9386A99DA8584E9BB12C4"),
        Some("C65A6867991D29FCF98B4E4549C1039CB5B3C63D891BA1EA4F0BB47211BA4B05"),
        Some("8577B24ADC763F65D562CD11204F938229AD47F27915B0821C46A0470B80813A"),
    ],
    [
        Some("DEC1593A7456C8C9407B9B8B9C89682DFFF33C3892BCC9D9F06956FEE0A1B949"),
        Some("99EB5BC150A1102A7E50D15F90594660010B7FE719D54129065D1D417AA5015A"),
        Some("5DCE3C7C86B0E129B32E5A07CA3DF668006A42F9D75399D6E4DB3F18256B8468"),
        Some("38788609A8634DC8D34F9AE723F3169ADB20768ACFDFF266A43B7E217750DD1E"),
    ],
    [
        Some("9B844E9378A7D13D6CDD4C1FF12FB313013E5CC472C6CB46497033563FE6B8F1"),
        Some("AF3AC31CFBE1733C62496CF8E856D5F1EFB4B06CBF1E74204221C89E2F3E1CDE"),
        Some("46E01E9CECDF6E7EA85807F65C5F3CEED96583F3BF97BC6835A6DA05E39FE8E9"),
        Some("26339A21D606A1F731B90E8001030651D48378116B06A9C1EF87E2538194C2C6"),
    ],
    [
        Some("40C9CED82AE0B7A397C9FDD14EEB7F70B74E8F1229F3ED931852591972DDC3E0"),
        Some("D9FFCCEEE9109751F034ECDAE328672956B90A6E0B409C3173741B8A5D0E75AB"),
        Some("803384F10871FB60E53A7F833E6E1E9729C6D040D960164077963092BBEBA274"),
        Some("26339A21D606A1F731B90E8001030651D48378116B06A9C1EF87E2538194C2C6"),
    ],
];

fn golden_check(dir: &std::path::Path, step: usize) -> Check {
    let names = ["bitfield", "data", "oplog", "tree"];
    for (i, n) in names.iter().enumerate() {
        let got = sha_file(&dir.join(n));
        let exp = GOLDEN[step - 1][i].map(|s| s.to_string());
        if got != exp {
            return Err(Failure::new(
                format!("golden-hash-mismatch:step{step}:{n}"),
                format!("interop scenario step {step}: SHA-256 of the {n} file is {got:?}, the value certified against the JavaScript implementation is {exp:?}"),
            ));
        }
    }
    Ok(())
}

async fn open_disk(dir: &std::path::PathBuf) -> Result<Hypercore, hypercore::HypercoreError> {
    let storage = Storage::new_disk(dir, false).await?;
    HypercoreBuilder::new(storage).open(true).build().await
}

/// The five-step interop scenario of tests/js_interop.rs performed by the crate alone.
pub fn golden_scenario() -> Check {
    let dir = scratch_dir("golden");
    let res = catch(|| -> Check {
        let e = |s: usize, e: hypercore::HypercoreError| Failure::new(format!("golden-step-error:step{s}"), format!("interop scenario step {s} failed: {e}"));
        // step 1: create
        block_on(async {
            let storage = Storage::new_disk(&dir, true).await?;
            HypercoreBuilder::new(storage).key_pair(hc::test_keypair()).build().await
        })
        .map_err(|x| e(1, x))?;
        golden_check(&dir, 1)?;
        // step 2: append Hello, World as a batch
        block_on(async {
            let mut c = open_disk(&dir).await?;
            let batch: &[&[u8]] = &[b"Hello", b"World"];
            c.append_batch(batch).await
        })
        .map_err(|x| e(2, x))?;
        golden_check(&dir, 2)?;
        // step 3: read and append unflushed
        block_on(async {
            let mut c = open_disk(&dir).await?;
            c.get(0).await?;
            c.get(1).await?;
            c.append(b"first").await?;
            let batch: &[&[u8]] = &[b"second", b"third"];
            c.append_batch(batch).await?;
            c.append(&[0x61u8; 4096 * 3]).await?;
            let empty: Vec<Vec<u8>> = vec![];
            c.append_batch(&empty).await?;
            c.get(2).await?;
            c.get(3).await?;
            c.get(4).await?;
            c.get(5).await
        })
        .map_err(|x| e(3, x))?;
        golden_check(&dir, 3)?;
        // step 4: five appends
        block_on(async {
            let mut c = open_disk(&dir).await?;
            for i in 0..5u8 {
                c.append(&[i]).await?;
            }
            Ok::<(), hypercore::HypercoreError>(())
        })
        .map_err(|x| e(4, x))?;
        golden_check(&dir, 4)?;
        // step 5: two clears
        block_on(async {
            let mut c = open_disk(&dir).await?;
            c.clear(5, 6).await?;
            c.clear(7, 9).await?;
            c.get(5).await?;
            c.get(7).await?;
            c.get(8).await?;
            c.get(4).await
        })
        .map_err(|x| e(5, x))?;
        golden_check(&dir, 5)?;
        Ok(())
    });
    let _ = std::fs::remove_dir_all(&dir);
    match res {
        Ok(c) => c,
        Err(p) => Err(panic_failure("golden interop scenario", &p)),
    }
}

// ------------------------------------------------------------------ direction 2

fn rblk() -> impl Strategy<Value = Blk> {
    let len = prop_oneof![2 => Just(0u32), 2 => Just(1u32), 8 => 2u32..=40, 1 => 41u32..=300];
    (len, any::<u8>()).prop_map(|(len, fill)| Blk { len, fill })
}

pub fn desc_strategy() -> impl Strategy<Value = StoreDesc> {
    let rop = prop_oneof![
        5 => prop::collection::vec(rblk(), 1..5).prop_map(ROp::Append),
        2 => (any::<u16>(), 0u8..3).prop_map(|(a, n)| ROp::Clear { a, n }),
    ];
    (
        prop::collection::vec(rop, 0..10),
        any::<u16>(),
        any::<u16>(),
        0u8..4,
        prop_oneof![3 => Just(0u8), 1 => Just(1u8), 1 => Just(2u8)],
        prop::bool::weighted(0.7),
        prop_oneof![3 => Just(0u8), 2 => 1u8..3],
        prop::bool::weighted(0.3),
        prop::bool::weighted(0.3),
        (prop_oneof![2 => Just(0u16), 3 => any::<u16>()], any::<u8>()),
    )
        .prop_map(|(ops, flush_sel, older_sel, rotation, other_slot, with_secret, partial_tail, stale_tail, torn_tail, (partial_mask, fork_sel))| StoreDesc {
            ops,
            flush_sel,
            older_sel,
            rotation,
            other_slot,
            with_secret,
            partial_tail,
            stale_tail,
            torn_tail,
            partial_mask,
            fork_sel,
        })
}

pub fn big_desc_strategy() -> impl Strategy<Value = StoreDesc> {
    (desc_strategy(), prop_oneof![Just(8193u32), Just(32768), Just(32769), Just(40000), Just(65537)], any::<u16>()).prop_map(|(mut d, n, pos)| {
        let at = crate::model::sel(pos, d.ops.len() as u64 + 1) as usize;
        d.ops.insert(at, ROp::BigAppend(n));
        d
    })
}

/// Direction 1 for histories with tens of thousands of blocks: dump at the end and after each reopen only.
pub fn run_writer_history_big(ops: &[Op], local: &mut Local) -> Check {
    let disk = Disk::new();
    let mut sim = WSim::create(&disk, ObsPolicy::Scaled)?;
    local.evals = local.evals.saturating_sub(1);
    for (k, op) in ops.iter().enumerate() {
        sim.apply(op)?;
        if matches!(op, Op::Reopen) || k + 1 == ops.len() {
            local.evals += 1;
            check_layout_big(&disk.snapshot(), sim.core(), &format!("after op {k} {op:?}"), local)?;
        }
    }
    Ok(())
}

/// check_layout with get() only on the sampled indices (has() on all).
fn check_layout_big(files: &Files, core: &mut Hypercore, ctxt: &str, local: &mut Local) -> Check {
    let rec = read_store(files).map_err(|e| Failure::new("layout-unreadable", format!("{ctxt}: a reader of the JavaScript layout cannot reconstruct the state: {e}")))?;
    let info = core.info();
    if rec.length != info.length || rec.byte_length != info.byte_length || rec.fork != info.fork || rec.writeable != info.writeable {
        return Err(Failure::new(
            "layout-mismatch:info",
            format!("{ctxt}: files say (length {}, bytes {}, fork {}, writeable {}) but the API reports {:?}", rec.length, rec.byte_length, rec.fork, rec.writeable, info),
        ));
    }
    for i in 0..info.length + 3 {
        let has = core.has(i);
        if has != rec.held.contains(&i) {
            return Err(Failure::new("layout-mismatch:held", format!("{ctxt}: bitfield in the files says block {i} held: {} but has({i}) = {has}", rec.held.contains(&i))));
        }
        if has && (i % 257 == 0 || i + 40 > info.length || i < 40 || (i % 32768) < 3 || (i % 32768) > 32765) {
            match block_on(core.get(i)) {
                Ok(Some(v)) if Some(&v) == rec.blocks.get(&i) => {}
                other => return Err(Failure::new("layout-mismatch:block_bytes", format!("{ctxt}: block {i}: files yield {:?} but get = {other:?}", rec.blocks.get(&i).map(|b| hc::brief_bytes(b))))),
            }
        }
    }
    local.class("big_boundaries_dumped");
    if info.length > 32768 {
        local.nontrivial(&(hash_of(&files[OPLOG]), info.length));
    }
    Ok(())
}

/// Reference writes, crate reads.
pub fn run_desc(desc: &StoreDesc, local: &mut Local) -> Check {
    let synth = synthesize(desc, &TEST_SECRET_KEY_BYTES);
    // sanity of the synthesiser itself: its own reader must reconstruct the expected state
    let rec = read_store(&synth.files).map_err(|e| Failure::new("harness-bug:synth-unreadable", format!("reference reader cannot parse the reference writer's output: {e}")))?;
    if rec.length != synth.expected.len() || rec.byte_length != synth.expected.byte_length {
        return Err(Failure::new(
            "harness-bug:synth-inconsistent",
            format!("reference reader sees ({},{}) but the synthesiser expects ({},{})", rec.length, rec.byte_length, synth.expected.len(), synth.expected.byte_length),
        ));
    }
    let disk = Disk::from_files(synth.files.clone());
    let what = format!(
        "JS-layout storage (rotation {}, other slot {}, {} entries of which {} kept, stale tail {}, torn tail {})",
        desc.rotation % 4,
        desc.other_slot % 3,
        synth.entries_written,
        synth.entries_kept,
        desc.stale_tail,
        desc.torn_tail
    );
    let mut core = match hc::open(&disk) {
        Ok(Ok(c)) => c,
        Ok(Err(e)) => return Err(Failure::new(format!("js-storage-open-error:{}", err_kind(&e)), format!("opening {what} failed: {e}"))),
        Err(p) => return Err(panic_failure(&format!("opening {what}"), &p)),
    };
    let obs = hc::observe(&mut core, synth.expected.len() + 3, false).map_err(|p| panic_failure(&format!("observing {what}"), &p))?;
    if let Some(d) = obs_vs_model(&obs, &synth.expected, false) {
        return Err(Failure::new("js-storage-state-mismatch", format!("{what} was opened to a different state than the layout prescribes: {d}")));
    }
    if core.key_pair().public.to_bytes() != rec.public_key {
        return Err(Failure::new("js-storage-key-mismatch", format!("{what}: public key differs")));
    }
    // the first operation after opening it, cut short at every storage operation: what a reader of the
    // files sees must be the opened state or the state after that operation (never an entry that
    // completes a dropped partial batch, never a stale entry coming back)
    if synth.entries_written > 0 || desc.stale_tail || desc.torn_tail {
        let jd = Disk::from_files(synth.files.clone());
        jd.0.journaling.store(true, std::sync::atomic::Ordering::SeqCst);
        if let Ok(Ok(c2)) = hc::open(&jd) {
            let mut s2 = WSim::attach(&jd, c2, synth.expected.clone(), ObsPolicy::Full);
            let op = if synth.expected.writeable { Op::Append(Blk { len: 2, fill: 0x46 }) } else { Op::Clear { a: 0, n: 0 } };
            let before = synth.expected.clone();
            if s2.apply(&op).is_ok() {
                let after = s2.model.clone();
                let journal = jd.journal();
                let mut files = synth.files.clone();
                // large stores: a bounded number of evenly spread crash points
                let stride = if after.len() > 400 { (journal.len() / 12).max(1) } else { 1 };
                for (k, jop) in journal.iter().enumerate() {
                    crate::backend::apply(&mut files, jop);
                    if k % stride != 0 && k + 1 != journal.len() {
                        continue;
                    }
                    let d3 = Disk::from_files(files.clone());
                    let mut c3 = match hc::open(&d3) {
                        Ok(Ok(c)) => c,
                        Ok(Err(e)) => return Err(Failure::new(format!("js-storage-crash-open-error:{}", err_kind(&e)), format!("{what}: after a crash {} storage operations into the first operation ({op:?}) the store does not open: {e}", k + 1))),
                        Err(p) => return Err(panic_failure(&format!("{what}: reopening after a crash in the first operation"), &p)),
                    };
                    let obs = hc::observe(&mut c3, after.len() + 3, false).map_err(|p| panic_failure("observing", &p))?;
                    if obs_vs_model(&obs, &before, false).is_some() && obs_vs_model(&obs, &after, false).is_some() {
                        return Err(Failure::new(
                            "js-storage-crash-state-mismatch",
                            format!("{what}: after a crash {} storage operations into the first operation ({op:?}) the store shows neither the opened state nor the state after it: {} | {}", k + 1, obs_vs_model(&obs, &before, false).unwrap(), obs_vs_model(&obs, &after, false).unwrap()),
                        ));
                    }
                    local.class("js_storage_first_op_crash_points");
                }
            }
        }
    }
    // keeps working: append (if writable) + clear + reopen
    let mut sim = WSim::attach(&disk, core, synth.expected.clone(), ObsPolicy::Full);
    for op in [Op::Append(Blk { len: 3, fill: 0x44 }), Op::Clear { a: 0x4000, n: 0 }, Op::Reopen, Op::Append(Blk { len: 1, fill: 0x45 }), Op::Reopen] {
        sim.apply(&op).map_err(|f| Failure::new(format!("js-storage-then:{}", f.kind), format!("{what}: continuing to use it: {}", f.detail)))?;
    }
    local.class("js_storages_opened");
    if synth.entries_written > 0 && (synth.entries_kept < synth.entries_written || desc.rotation % 2 == 1 || desc.stale_tail) {
        local.nontrivial(desc);
    }
    if synth.entries_kept < synth.entries_written {
        local.class("with_trailing_partial_entries");
    }
    if desc.rotation % 2 == 1 {
        local.class("with_slot2_current");
    }
    if desc.other_slot % 3 != 0 {
        local.class("with_only_one_valid_slot");
    }
    if desc.stale_tail {
        local.class("with_stale_tail");
    }
    if desc.torn_tail {
        local.class("with_torn_tail");
    }
    if desc.fork() != 0 {
        local.class("with_fork_above_zero");
    }
    if (0..synth.entries_kept.saturating_sub(1)).any(|i| (desc.partial_mask >> (i % 16)) & 1 == 1) {
        local.class("with_complete_batch_of_partial_entries_in_the_middle");
    }
    Ok(())
}

pub fn run(ctx: &Ctx) {
    ctx.set_rule(
        "evaluations = operation boundaries dumped (direction 1) + synthetic JS storages opened (direction 2) + 1 golden scenario. \
         Direction 1: writer histories (alphabet H) and replication sessions; after every operation an independent reader that knows \
         only the JavaScript Hypercore-10 layout reconstructs (length, fork, byte length, held set, every held block's bytes, public \
         key, writability) from the four raw files, which must equal the API's answers. Golden: the five interop steps performed on \
         the disk backend must reproduce the SHA-256 file hashes certified against JavaScript in tests/js_interop.rs. Direction 2: an \
         independent writer synthesises JS-valid storage (header in either slot and bit rotation, older/absent/corrupt other slot, \
         0..n entries, complete batches of partial-flagged entries in the middle, fork counters 0/1/2/300, trailing partial entries, stale entries with the other header bit, torn trailing entry) which the crate must \
         open to the reference state and keep using. Non-trivial: direction 1 = boundary with >= 1 unflushed entry of a kind other \
         than append; direction 2 = description with >= 1 entry and (partial tail or slot 2 current or stale tail).",
    );
    ctx.assume("JavaScript itself is not available offline: its certified artefacts (golden hashes) and the layout rules stated in the property are the reference");
    // golden scenario (one deterministic case)
    indexed_stage(ctx, "golden", 1, |_| json!("five-step interop scenario"), |_, _| golden_scenario());
    random_stage(ctx, "dir1-writer", ctx.tier.pick(3_000, 60_000), || crate::props::c01::history_strategy(40), |ops: &Vec<Op>, local| run_writer_history(ops, local));
    // histories in which the core is made read-only and then cleared/reopened further
    random_stage(ctx, "dir1-writer-readonly", ctx.tier.pick(1_500, 30_000), crate::props::c12::history_strategy, |ops: &Vec<Op>, local| run_writer_history(ops, local));
    random_stage(ctx, "dir1-sessions", ctx.tier.pick(2_000, 40_000), || session_strategy(30), |ops: &Vec<SOp>, local| run_session(ops, local));
    random_stage(ctx, "dir2-js-storage", ctx.tier.pick(4_000, 80_000), desc_strategy, |d: &StoreDesc, local| run_desc(d, local));
    // multi-page bitfields and deep trees in both directions
    random_stage(ctx, "dir1-big", ctx.tier.pick(24, 400), crate::props::c01::big_history_strategy, |ops: &Vec<Op>, local| run_writer_history_big(ops, local));
    random_stage(ctx, "dir2-big", ctx.tier.pick(48, 800), big_desc_strategy, |d: &StoreDesc, local| run_desc(d, local));
    // sparse replicas of 2-4-page writers: blocks pages apart, replica-side clears across untouched pages
    random_stage(ctx, "dir1-big-sessions", ctx.tier.pick(32, 600), crate::props::c08::page_gap_replica_strategy, |ops: &Vec<SOp>, local| {
        local.class("big_sessions");
        run_session(ops, local)
    });
    let _ = (TREE, DATA, BITFIELD);
}

pub fn replay(case: &Value) -> Check {
    let mut l = Local::default();
    if case.is_string() {
        return golden_scenario();
    }
    if case.get("flush_sel").is_some() {
        let d: StoreDesc = serde_json::from_value(case.clone()).map_err(|e| Failure::new("bad-replay", e.to_string()))?;
        return run_desc(&d, &mut l);
    }
    if let Ok(ops) = serde_json::from_value::<Vec<Op>>(case.clone()) {
        return run_writer_history(&ops, &mut l);
    }
    let ops: Vec<SOp> = serde_json::from_value(case.clone()).map_err(|e| Failure::new("bad-replay", e.to_string()))?;
    run_session(&ops, &mut l)
}
