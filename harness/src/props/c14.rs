//! C14 — behaviour and bytes are independent of storage backend and node cache.

use crate::backend::{Disk, Files, STORE_NAMES};
use crate::envs::*;
use crate::exec::{block_on, catch};
use crate::hc::{self, CacheCfg};
use crate::model::sel;
use crate::mutate::PProof;
use crate::ops::*;
use crate::repl::{req_strategy, wblk_strategy, Req, Seek, Target, Upg};
use crate::reftree as ft;
use crate::runner::*;
use hypercore::{Hypercore, RequestBlock, RequestSeek, RequestUpgrade};
use proptest::prelude::*;
use serde::{Deserialize, Serialize};
use serde_json::Value;

#[derive(Clone, Debug, PartialEq, Eq, Hash, Serialize, Deserialize)]
pub enum CStep {
    W(Op),
    Req(Req),
    RReopen,
    RGet(u16),
    /// a peer request with boundary-relative numbers (may be refused), to the writer or the replica
    Peer { to_replica: bool, req: crate::props::c09::AbsReq, uniform: Option<u16> },
    /// a peer request with concrete numbers (enumerated scenarios)
    PeerRaw { to_replica: bool, req: crate::props::c09::RawReq },
    /// like `Req`, but the writer's proof is altered (alteration number sel(alt, |alteration set|))
    /// before the replica gets it: normally refused, and the refusal must leave no trace anywhere
    ReqAltered { req: Req, alt: u16 },
    /// re-create the writer's (or the replica's) core over its existing storage with overwrite = true;
    /// the reference configuration starts over on brand-new storage instead
    Recreate { replica: bool },
}

pub fn cstep_strategy() -> impl Strategy<Value = CStep> {
    prop_oneof![
        5 => wblk_strategy().prop_map(|b| CStep::W(Op::Append(b))),
        3 => prop::collection::vec(wblk_strategy(), 0..7).prop_map(|b| CStep::W(Op::Batch(b))),
        4 => clear_strategy().prop_map(CStep::W),
        3 => idx_strategy().prop_map(|i| CStep::W(Op::Get(i))),
        1 => idx_strategy().prop_map(|i| CStep::W(Op::Has(i))),
        1 => Just(CStep::W(Op::Info)),
        3 => Just(CStep::W(Op::Reopen)),
        8 => req_strategy().prop_map(CStep::Req),
        2 => Just(CStep::RReopen),
        3 => any::<u16>().prop_map(CStep::RGet),
        4 => (any::<bool>(), crate::props::c09::absreq_strategy(), prop::option::weighted(0.6, any::<u16>())).prop_map(|(to_replica, req, uniform)| CStep::Peer { to_replica, req, uniform }),
        3 => (req_strategy(), any::<u16>()).prop_map(|(req, alt)| CStep::ReqAltered { req, alt }),
    ]
}

/// Histories with one or two re-creations (overwrite = true) in the middle.
pub fn overwrite_steps_strategy() -> impl Strategy<Value = Vec<CStep>> {
    let seg = || prop::collection::vec(cstep_strategy(), 1..14);
    (seg(), any::<bool>(), seg(), prop::option::of((any::<bool>(), seg()))).prop_map(|(a, r1, b, more)| {
        let mut s = a;
        s.push(CStep::Recreate { replica: r1 });
        s.extend(b);
        if let Some((r2, c)) = more {
            s.push(CStep::Recreate { replica: r2 });
            s.extend(c);
        }
        s
    })
}

pub fn csteps_strategy() -> impl Strategy<Value = Vec<CStep>> {
    prop::collection::vec(cstep_strategy(), 2..40)
}

#[derive(Clone, Debug, PartialEq, Serialize)]
pub enum TraceItem {
    W(Out),
    Req { req: String, proof: Option<PProof>, writer_err: Option<String>, applied: Option<Result<bool, String>> },
    RReopen(Result<(), String>),
    RGet(u64, Result<Option<Vec<u8>>, String>),
    Info(String),
}

pub struct ConfigRun {
    pub trace: Vec<TraceItem>,
    pub wfiles: Files,
    pub rfiles: Files,
    pub hole_inside_data: bool,
    pub tree_reads_after_capacity: bool,
}

fn info_str(c: &Hypercore) -> String {
    let i = c.info();
    format!("{}/{}/{}/{}/{}", i.length, i.byte_length, i.contiguous_length, i.fork, i.writeable)
}

/// Run the steps on one configuration, purely API-driven (no model).
pub fn run_config<E: Env + Clone>(wenv: &E, renv: &E, cache: CacheCfg, steps: &[CStep]) -> Result<ConfigRun, Failure> {
    run_config_ext(wenv, renv, cache, steps, false)
}

/// `fresh_on_recreate`: a `Recreate` step moves to brand-new storage (the reference for "overwriting
/// equals starting over") instead of overwriting the existing one.
pub fn run_config_ext<E: Env + Clone>(wenv: &E, renv: &E, cache: CacheCfg, steps: &[CStep], fresh_on_recreate: bool) -> Result<ConfigRun, Failure> {
    let (mut wenv, mut renv) = (wenv.clone(), renv.clone());
    let mk = |r: hc::CallResult<Hypercore>, what: &str| -> Result<Hypercore, Failure> {
        match r {
            Ok(Ok(c)) => Ok(c),
            Ok(Err(e)) => Err(Failure::new(format!("config-open-error:{}", err_kind(&e)), format!("{what}: {e}"))),
            Err(p) => Err(panic_failure(what, &p)),
        }
    };
    let mut w = mk(wenv.create_with(hc::test_keypair(), cache), "creating the writer")?;
    let mut r = mk(renv.create_with(hc::public_only(&hc::test_keypair()), cache), "creating the replica")?;
    let mut trace = vec![];
    let mut hole_inside_data = false;
    let mut reopened_after_hole = false;
    let mut tree_calls = 0u32;
    for (k, st) in steps.iter().enumerate() {
        let ctxt = format!("step {k} {st:?}");
        let item = catch(|| -> Result<TraceItem, Failure> {
            Ok(match st {
                CStep::W(op) => {
                    let len = w.info().length;
                    let out = match op {
                        Op::Append(b) => match block_on(w.append(&b.bytes())) {
                            Ok(o) => Out::Appended { length: o.length, byte_length: o.byte_length },
                            Err(e) => Out::Err(err_kind(&e)),
                        },
                        Op::Batch(bs) => {
                            let data: Vec<Vec<u8>> = bs.iter().map(|b| b.bytes()).collect();
                            match block_on(w.append_batch(&data)) {
                                Ok(o) => Out::Appended { length: o.length, byte_length: o.byte_length },
                                Err(e) => Out::Err(err_kind(&e)),
                            }
                        }
                        Op::Clear { a, n } => match clear_range_for(len, *a, *n) {
                            None => Out::Skipped,
                            Some((s, e)) => {
                                if s > 0 && e < len {
                                    hole_inside_data = true;
                                }
                                match block_on(w.clear(s, e)) {
                                    Ok(()) => Out::Cleared,
                                    Err(e) => Out::Err(err_kind(&e)),
                                }
                            }
                        },
                        Op::Get(i) => {
                            let i = match i {
                                Idx::Near(s) => sel(*s, len + 3),
                                Idx::Far(k) => hc::FAR_PROBES[*k as usize % hc::FAR_PROBES.len()],
                            };
                            tree_calls += 1;
                            match block_on(w.get(i)) {
                                Ok(v) => Out::Got(v),
                                Err(e) => Out::Err(err_kind(&e)),
                            }
                        }
                        Op::Has(i) => {
                            let i = match i {
                                Idx::Near(s) => sel(*s, len + 3),
                                Idx::Far(k) => hc::FAR_PROBES[*k as usize % hc::FAR_PROBES.len()],
                            };
                            Out::Has(w.has(i))
                        }
                        Op::Info => {
                            return Ok(TraceItem::Info(info_str(&w)));
                        }
                        Op::Reopen => {
                            if hole_inside_data {
                                reopened_after_hole = true;
                            }
                            drop(std::mem::replace(&mut w, mk(wenv.open_with(cache), "reopening the writer")?));
                            Out::Reopened
                        }
                        _ => Out::Skipped,
                    };
                    TraceItem::W(out)
                }
                CStep::Recreate { replica } => {
                    let (env, kp) = if *replica { (&mut renv, hc::public_only(&hc::test_keypair())) } else { (&mut wenv, hc::test_keypair()) };
                    let core = if fresh_on_recreate {
                        *env = env.fresh_like();
                        mk(env.create_with(kp, cache), "creating a core on new storage")?
                    } else {
                        mk(env.recreate_with(kp, cache), "re-creating a core over existing storage")?
                    };
                    if *replica {
                        r = core;
                    } else {
                        w = core;
                    }
                    TraceItem::Info(format!("recreated writer {} replica {}", info_str(&w), info_str(&r)))
                }
                CStep::Req(_) | CStep::ReqAltered { .. } => {
                    let (req, alt) = match st {
                        CStep::Req(q) => (q, None),
                        CStep::ReqAltered { req, alt } => (req, Some(*alt)),
                        _ => unreachable!(),
                    };
                    let rl = r.info().length;
                    let wi = w.info();
                    let behind = wi.length.saturating_sub(rl);
                    let upgrade = if behind == 0 {
                        None
                    } else {
                        match &req.upgrade {
                            Upg::None => None,
                            Upg::Full => Some(RequestUpgrade { start: rl, length: behind }),
                            Upg::Partial(x) => Some(RequestUpgrade { start: rl, length: sel(*x, behind) + 1 }),
                            Upg::Len(l) => Some(RequestUpgrade { start: rl, length: (*l).clamp(1, behind) }),
                        }
                    };
                    let covered = rl + upgrade.as_ref().map(|u| u.length).unwrap_or(0);
                    let mut block = None;
                    let mut hash = None;
                    match &req.target {
                        Target::Block(x) if covered > 0 => {
                            let i = sel(*x, covered);
                            tree_calls += 1;
                            let nodes = block_on(r.missing_nodes(i)).unwrap_or(0);
                            block = Some(RequestBlock { index: i, nodes });
                        }
                        Target::Hash(x) if covered > 0 => {
                            let cands = ft::RefTree::full_indices(covered);
                            let j = cands[sel(*x, cands.len() as u64) as usize];
                            tree_calls += 1;
                            let nodes = block_on(r.missing_nodes_from_merkle_tree_index(j)).unwrap_or(0);
                            hash = Some(RequestBlock { index: j, nodes });
                        }
                        _ => {}
                    }
                    let seek = match &req.seek {
                        Seek::Sel(x) => Some(RequestSeek { bytes: sel(*x, wi.byte_length + 1) }),
                        _ => None,
                    };
                    let reqs = format!("{block:?} {hash:?} {seek:?} {upgrade:?}");
                    tree_calls += 1;
                    match block_on(w.create_proof(block, hash, seek, upgrade)) {
                        Err(e) => TraceItem::Req { req: reqs, proof: None, writer_err: Some(err_kind(&e)), applied: None },
                        Ok(None) => TraceItem::Req { req: reqs, proof: None, writer_err: None, applied: None },
                        Ok(Some(p)) => {
                            let p = match alt {
                                None => p,
                                Some(a) => {
                                    let mut pp = PProof::from_proof(&p);
                                    let (alts, _) = crate::mutate::alterations(&pp);
                                    if !alts.is_empty() {
                                        crate::mutate::apply_alt(&mut pp, &alts[sel(a, alts.len() as u64) as usize]);
                                    }
                                    pp.to_proof()
                                }
                            };
                            let applied = match block_on(r.verify_and_apply_proof(&p)) {
                                Ok(b) => Ok(b),
                                Err(e) => Err(err_kind(&e)),
                            };
                            TraceItem::Req { req: reqs, proof: Some(PProof::from_proof(&p)), writer_err: None, applied: Some(applied) }
                        }
                    }
                }
                CStep::RReopen => {
                    drop(std::mem::replace(&mut r, mk(renv.open_with(cache), "reopening the replica")?));
                    TraceItem::RReopen(Ok(()))
                }
                CStep::Peer { to_replica, req, uniform } => {
                    let core = if *to_replica { &mut r } else { &mut w };
                    let info = core.info();
                    let rb = |b: (u8, i8)| crate::props::c09::resolve_b(b, info.length, info.byte_length);
                    // `uniform`: indices drawn uniformly over the (small) tree instead of from the boundary set,
                    // so that nodes which do not exist yet but whose slot lies inside the tree file are hit
                    let block = req.block.map(|(i, n)| RequestBlock { index: uniform.map(|u| sel(u, info.length + 2)).unwrap_or_else(|| rb(i)), nodes: rb(n) });
                    let hash = req.hash.map(|(i, n)| RequestBlock { index: uniform.map(|u| sel(u, 2 * info.length + 3)).unwrap_or_else(|| rb(i)), nodes: rb(n) });
                    let seek = req.seek.map(|s| RequestSeek { bytes: rb(s) });
                    let upgrade = req.upgrade.map(|(s, l)| RequestUpgrade { start: rb(s), length: rb(l) });
                    let reqs = format!("peer {block:?} {hash:?} {seek:?} {upgrade:?} to_replica={to_replica}");
                    tree_calls += 1;
                    match block_on(core.create_proof(block, hash, seek, upgrade)) {
                        Err(e) => TraceItem::Req { req: reqs, proof: None, writer_err: Some(err_kind(&e)), applied: None },
                        Ok(None) => TraceItem::Req { req: reqs, proof: None, writer_err: None, applied: None },
                        Ok(Some(p)) => TraceItem::Req { req: reqs, proof: Some(PProof::from_proof(&p)), writer_err: None, applied: None },
                    }
                }
                CStep::PeerRaw { to_replica, req } => {
                    let core = if *to_replica { &mut r } else { &mut w };
                    let block = req.block.map(|(index, nodes)| RequestBlock { index, nodes });
                    let hash = req.hash.map(|(index, nodes)| RequestBlock { index, nodes });
                    let seek = req.seek.map(|bytes| RequestSeek { bytes });
                    let upgrade = req.upgrade.map(|(start, length)| RequestUpgrade { start, length });
                    let reqs = format!("peer {req:?} to_replica={to_replica}");
                    tree_calls += 1;
                    match block_on(core.create_proof(block, hash, seek, upgrade)) {
                        Err(e) => TraceItem::Req { req: reqs, proof: None, writer_err: Some(err_kind(&e)), applied: None },
                        Ok(None) => TraceItem::Req { req: reqs, proof: None, writer_err: None, applied: None },
                        Ok(Some(p)) => TraceItem::Req { req: reqs, proof: Some(PProof::from_proof(&p)), writer_err: None, applied: None },
                    }
                }
                CStep::RGet(x) => {
                    let i = sel(*x, r.info().length + 3);
                    tree_calls += 1;
                    TraceItem::RGet(
                        i,
                        match block_on(r.get(i)) {
                            Ok(v) => Ok(v),
                            Err(e) => Err(err_kind(&e)),
                        },
                    )
                }
            })
        });
        match item {
            Ok(Ok(it)) => trace.push(it),
            Ok(Err(f)) => return Err(Failure::new(f.kind, format!("{ctxt}: {}", f.detail))),
            Err(p) => return Err(panic_failure(&ctxt, &p)),
        }
    }
    trace.push(TraceItem::Info(format!("final writer {} replica {}", info_str(&w), info_str(&r))));
    drop(w);
    drop(r);
    Ok(ConfigRun { trace, wfiles: wenv.files(), rfiles: renv.files(), hole_inside_data: hole_inside_data && reopened_after_hole, tree_reads_after_capacity: tree_calls > 3 })
}

/// Errors are compared by class (the `HypercoreError` variant), not by message: which of several
/// unavailable tree nodes a refused request stumbles over first may legitimately depend on what is
/// cached ("... out of bounds for store length" vs "... blank").
fn class_only(t: &TraceItem) -> TraceItem {
    let cls = |s: &String| s.split(':').next().unwrap_or("").to_string();
    match t {
        TraceItem::W(Out::Err(e)) => TraceItem::W(Out::Err(cls(e))),
        TraceItem::Req { req, proof, writer_err, applied } => TraceItem::Req {
            req: req.clone(),
            proof: proof.clone(),
            writer_err: writer_err.as_ref().map(cls),
            applied: applied.as_ref().map(|a| a.as_ref().map(|b| *b).map_err(cls)),
        },
        TraceItem::RGet(i, Err(e)) => TraceItem::RGet(*i, Err(cls(e))),
        other => other.clone(),
    }
}

fn compare(name: &str, a: &ConfigRun, b: &ConfigRun, compare_files: bool) -> Check {
    for (k, (x, y)) in a.trace.iter().zip(b.trace.iter()).enumerate() {
        if class_only(x) != class_only(y) {
            return Err(Failure::new(
                format!("config-observation-differs:{}", name.split('/').next().unwrap_or(name)),
                format!("configuration {name}: result {k} differs from the reference configuration: {} vs {}", truncate(&format!("{y:?}"), 400), truncate(&format!("{x:?}"), 400)),
            ));
        }
    }
    if a.trace.len() != b.trace.len() {
        return Err(Failure::new("config-observation-differs:len", format!("configuration {name}: trace length {} vs {}", b.trace.len(), a.trace.len())));
    }
    if compare_files {
        for (role, fa, fb) in [("writer", &a.wfiles, &b.wfiles), ("replica", &a.rfiles, &b.rfiles)] {
            for s in 0..4 {
                if fa[s] != fb[s] {
                    let pos = fa[s].iter().zip(fb[s].iter()).position(|(p, q)| p != q);
                    return Err(Failure::new(
                        format!("config-files-differ:{}:{}", name.split('/').next().unwrap_or(name), STORE_NAMES[s]),
                        format!(
                            "configuration {name}: the {role}'s {} file differs from the reference configuration (lengths {} vs {}, first differing byte {:?})",
                            STORE_NAMES[s],
                            fb[s].len(),
                            fa[s].len(),
                            pos
                        ),
                    ));
                }
            }
        }
    }
    Ok(())
}

pub fn run_case(steps: &[CStep], with_disk: bool, with_cache: bool, local: &mut Local) -> Check {
    let t0 = std::time::Instant::now();
    let r = run_case_inner(steps, with_disk, with_cache, local);
    if std::env::var("HCV_TIMING").is_ok() {
        local.class_n("micros_total", t0.elapsed().as_micros() as u64);
    }
    r
}

fn run_case_inner(steps: &[CStep], with_disk: bool, with_cache: bool, local: &mut Local) -> Check {
    // reference: instrumented backend, cache off
    let (wd, rd) = (Disk::new(), Disk::new());
    let has_recreate = steps.iter().any(|s| matches!(s, CStep::Recreate { .. }));
    let reference = run_config_ext(&wd, &rd, CacheCfg::Off, steps, true)?;
    if has_recreate {
        local.class("histories_with_overwrite");
        local.nontrivial(&steps);
    }
    if steps.iter().any(|s| matches!(s, CStep::ReqAltered { .. })) {
        local.class("histories_with_altered_proofs");
    }
    // journaled instrumented backend
    let (wj, rj) = (Disk::journaled(), Disk::journaled());
    compare("journal/cache-off", &reference, &run_config(&wj, &rj, CacheCfg::Off, steps)?, true)?;
    // stock memory backend
    // page size: mostly small pages (cheap, page-crossing), the default 1 MiB for every 16th history
    let ps = match hash_of(&steps) % 16 {
        0 => 1024 * 1024,
        1..=5 => 64,
        _ => 4096,
    };
    let (wm, rm) = (StockMem::with_page_size(ps), StockMem::with_page_size(ps));
    compare("stock-memory/cache-off", &reference, &run_config(&wm, &rm, CacheCfg::Off, steps)?, true)?;
    let t1 = std::time::Instant::now();
    // caches (observations and files)
    if with_cache {
        for (cache, name) in [(CacheCfg::Default, "memfiles/cache-default"), (CacheCfg::Tiny, "memfiles/cache-tiny")] {
            let (w2, r2) = (Disk::new(), Disk::new());
            compare(name, &reference, &run_config(&w2, &r2, cache, steps)?, true)?;
        }
        let (wm2, rm2) = (StockMem::with_page_size(4096), StockMem::with_page_size(4096));
        compare("stock-memory/cache-tiny", &reference, &run_config(&wm2, &rm2, CacheCfg::Tiny, steps)?, true)?;
        // one of the rarer legal cache configurations per history
        let (extra, name) = match hash_of(&steps) % 4 {
            0 => (CacheCfg::Zero, "memfiles/cache-capacity-0"),
            1 => (CacheCfg::One, "memfiles/cache-capacity-1-node"),
            2 => (CacheCfg::TtlOnly, "memfiles/cache-time-to-live-only"),
            _ => (CacheCfg::TtiOnly, "memfiles/cache-time-to-idle-only"),
        };
        let (w3, r3) = (Disk::new(), Disk::new());
        compare(name, &reference, &run_config(&w3, &r3, extra, steps)?, true)?;
        local.class(&format!("extra_cache_configuration:{}", &name[9..]));
        local.class("histories_with_cache_configurations");
        local.class_n("configurations_compared", 4);
    }
    if std::env::var("HCV_TIMING").is_ok() {
        local.class_n("micros_cache_configs", t1.elapsed().as_micros() as u64);
    }
    local.class("histories");
    local.class_n("configurations_compared", 2);
    if with_disk {
        let (wk, rk) = (StockDisk::new("c14w"), StockDisk::new("c14r"));
        let res = run_config(&wk, &rk, CacheCfg::Off, steps).and_then(|run| compare(if cfg!(feature = "sparse") { "stock-disk-sparse/cache-off" } else { "stock-disk-nosparse/cache-off" }, &reference, &run, true));
        let res2 = res.and_then(|_| {
            wk.remove();
            rk.remove();
            let (wk2, rk2) = (StockDisk::new("c14w"), StockDisk::new("c14r"));
            let cache2 = if hash_of(&steps) % 2 == 0 { CacheCfg::Default } else { CacheCfg::Tiny };
            let r = run_config(&wk2, &rk2, cache2, steps).and_then(|run| compare(if cache2 == CacheCfg::Tiny { "stock-disk/cache-tiny" } else { "stock-disk/cache-default" }, &reference, &run, true));
            wk2.remove();
            rk2.remove();
            r
        });
        wk.remove();
        rk.remove();
        res2?;
        local.class("histories_with_disk_backend");
        local.class_n("configurations_compared", 2);
    }
    if reference.hole_inside_data {
        local.class("with_hole_inside_data_and_reopen");
    }
    if reference.hole_inside_data || reference.tree_reads_after_capacity {
        local.nontrivial(&steps);
    }
    Ok(())
}

/// Enumerated scenarios "a request that is refused (or answered) must not change later answers":
/// a writer of L blocks is asked for the hash of every tree index around its tree (existing or not)
/// resp. for every block index, then grows block by block and is read completely - on every
/// cache configuration. A replica that upgraded at L is asked the same after the first request.
pub fn poison_scenarios() -> Vec<Vec<CStep>> {
    use crate::model::Blk;
    use crate::props::c09::RawReq;
    let blk = |i: u64| Blk { len: (i % 3 + 1) as u32, fill: (i as u8).wrapping_mul(9).wrapping_add(1) };
    let mut out = vec![];
    for l in 1..=10u64 {
        for j in 0..(2 * l + 4) {
            for kind in 0..3u8 {
                let mut s: Vec<CStep> = (0..l).map(|i| CStep::W(Op::Append(blk(i)))).collect();
                s.push(CStep::Req(Req { target: Target::None, upgrade: Upg::Full, seek: Seek::None }));
                let req = match kind {
                    0 => RawReq { block: None, hash: Some((j, 0)), seek: None, upgrade: None },
                    1 => RawReq { block: None, hash: Some((j, 1)), seek: None, upgrade: Some((0, l)) },
                    _ => RawReq { block: Some((j / 2, 0)), hash: None, seek: Some(j), upgrade: None },
                };
                s.push(CStep::PeerRaw { to_replica: false, req: req.clone() });
                s.push(CStep::PeerRaw { to_replica: true, req });
                for i in l..(2 * l + 3) {
                    s.push(CStep::W(Op::Append(blk(i))));
                }
                s.push(CStep::Req(Req { target: Target::Block(0xffff), upgrade: Upg::Full, seek: Seek::None }));
                for i in 0..(2 * l + 3) {
                    s.push(CStep::W(Op::Get(Idx::Near(((i * 65536) / (2 * l + 6) + 1) as u16))));
                }
                s.push(CStep::RGet(0xffff));
                out.push(s);
            }
        }
    }
    out
}

pub fn run(ctx: &Ctx) {
    ctx.set_rule(
        "cases = histories of writer ops (append, batch, clear, get, has, info, reopen) and replication steps (requests built from \
         the replica's own answers, proof application, replica reopen, replica reads) with one fixed key pair. Every history runs on: \
         instrumented memory backend (reference), journaled instrumented backend, the crate's stock in-memory backend, each cache \
         configuration (off / default / capacity of 3 nodes, plus one of capacity 0 / capacity of 1 node / time-to-live only / time-to-idle only per history), and - in the disk stage - the stock disk backend in a scratch directory \
         (this build: sparse hole punching ON; thorough also runs a build without the `sparse` feature). All results of every step \
         (values, Ok/Err class, complete proofs, missing_nodes-derived requests, infos) must be equal and the four files of writer \
         and replica must be byte-identical when read back through the backend (punched holes read as zeros). An enumerated stage asks a writer of 1..10 blocks (and its \
         replica) for every tree/block index around its tree, existing or not, then grows it and reads everything, on all cache \
         configurations. Histories also contain altered proofs (one alteration of the C04 set applied to the writer's proof before \
         the replica gets it; whatever the replica answers, all later results and files must still agree on every configuration) and, \
         in the overwrite stages, re-creation of the writer's or replica's core over its existing storage with overwrite = true, where \
         the reference configuration starts over on brand-new storage: overwriting must be indistinguishable from starting fresh, in \
         observations and bytes. Non-trivial = history \
         with a clear strictly inside the data followed by a reopen, or with more than 3 tree-reading calls (beyond the tiny cache's \
         capacity), or with an overwrite.",
    );
    if std::env::var("HCV_ONLY_DISK").is_ok() {
        // second build without the `sparse` feature (thorough tier): only the disk comparison
        random_stage(ctx, "disk-nosparse", ctx.tier.pick(320, 10_000), csteps_strategy, |s: &Vec<CStep>, local| run_case(s, true, false, local));
        random_stage(ctx, "overwrite-equals-fresh-disk-nosparse", ctx.tier.pick(160, 5_000), overwrite_steps_strategy, |s: &Vec<CStep>, local| run_case(s, true, false, local));
        return;
    }
    if let Ok(path) = std::env::var("HCV_NOSPARSE_EVIDENCE") {
        if let Ok(txt) = std::fs::read_to_string(&path) {
            if let Ok(v) = serde_json::from_str::<Value>(&txt) {
                ctx.extra("nosparse_build_disk_stage", v.get("coverage").cloned().unwrap_or(Value::Null));
            }
        }
    }
    random_stage(ctx, "memory-backends", ctx.tier.pick(8_000, 150_000), csteps_strategy, |s: &Vec<CStep>, local| run_case(s, false, false, local));
    random_stage(ctx, "cache-configurations", ctx.tier.pick(1_600, 30_000), csteps_strategy, |s: &Vec<CStep>, local| run_case(s, false, true, local));
    let ps = poison_scenarios();
    let nps = ps.len() as u64;
    indexed_stage(ctx, "refused-request-then-growth", nps, |i| ps[i as usize].clone(), |s: &Vec<CStep>, local| run_case(s, false, true, local));
    random_stage(ctx, "disk", ctx.tier.pick(320, 10_000), csteps_strategy, |s: &Vec<CStep>, local| run_case(s, true, false, local));
    random_stage(ctx, "overwrite-equals-fresh", ctx.tier.pick(1_200, 30_000), overwrite_steps_strategy, |s: &Vec<CStep>, local| run_case(s, false, true, local));
    random_stage(ctx, "overwrite-equals-fresh-disk", ctx.tier.pick(160, 5_000), overwrite_steps_strategy, |s: &Vec<CStep>, local| run_case(s, true, false, local));
}

pub fn replay(case: &Value) -> Check {
    let steps: Vec<CStep> = serde_json::from_value(case.clone()).map_err(|e| Failure::new("bad-replay", e.to_string()))?;
    let mut l = Local::default();
    if std::env::var("HCV_C14_REFERENCE_ONLY").is_ok() {
        // used by the watchdog to tell "this history hangs everywhere" from "a configuration hangs"
        let (wd, rd) = (Disk::new(), Disk::new());
        return run_config_ext(&wd, &rd, CacheCfg::Off, &steps, true).map(|_| ());
    }
    run_case(&steps, true, true, &mut l)
}
