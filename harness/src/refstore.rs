//! Independent reader and writer of the JavaScript Hypercore-10 on-disk layout.
//! Nothing here calls into /repo. Trusted base: `crc32fast`, `blake2`, `ed25519-dalek`.
//!
//! Layout:
//!   oplog   : two 4096-byte header slots, entries from byte 8192. Every record is
//!             crc32(LE32(len<<2 | partial<<1 | header_bit) ‖ payload) ‖ LE32(...) ‖ payload.
//!   bitfield: 4096-byte pages of little-endian u32 words, bit i of a page = word i/32, bit i%32.
//!   tree    : 40-byte nodes at 40*index: LE64(size) ‖ hash.
//!   data    : blocks concatenated in index order.

use crate::backend::{Files, BITFIELD, DATA, OPLOG, TREE};
use crate::reftree as ft;
use crate::reftree::{RNode, RefTree};
use ed25519_dalek::{Signer, SigningKey};
use std::collections::{BTreeMap, BTreeSet};

// ------------------------------------------------------------------ compact encoding

pub fn put_uint(out: &mut Vec<u8>, v: u64) {
    if v <= 0xfc {
        out.push(v as u8);
    } else if v <= 0xffff {
        out.push(0xfd);
        out.extend_from_slice(&(v as u16).to_le_bytes());
    } else if v <= 0xffff_ffff {
        out.push(0xfe);
        out.extend_from_slice(&(v as u32).to_le_bytes());
    } else {
        out.push(0xff);
        out.extend_from_slice(&v.to_le_bytes());
    }
}

pub fn put_buf(out: &mut Vec<u8>, b: &[u8]) {
    put_uint(out, b.len() as u64);
    out.extend_from_slice(b);
}

pub struct Rd<'a> {
    pub b: &'a [u8],
    pub p: usize,
}

impl<'a> Rd<'a> {
    pub fn new(b: &'a [u8]) -> Self {
        Rd { b, p: 0 }
    }
    pub fn take(&mut self, n: usize) -> Result<&'a [u8], String> {
        if self.p + n > self.b.len() {
            return Err(format!("out of bounds: need {n} bytes at {} of {}", self.p, self.b.len()));
        }
        let s = &self.b[self.p..self.p + n];
        self.p += n;
        Ok(s)
    }
    pub fn u8(&mut self) -> Result<u8, String> {
        Ok(self.take(1)?[0])
    }
    pub fn uint(&mut self) -> Result<u64, String> {
        let f = self.u8()?;
        Ok(match f {
            0xfd => u16::from_le_bytes(self.take(2)?.try_into().unwrap()) as u64,
            0xfe => u32::from_le_bytes(self.take(4)?.try_into().unwrap()) as u64,
            0xff => u64::from_le_bytes(self.take(8)?.try_into().unwrap()),
            v => v as u64,
        })
    }
    pub fn buf(&mut self) -> Result<&'a [u8], String> {
        let n = self.uint()? as usize;
        self.take(n)
    }
}

// ------------------------------------------------------------------ records

pub fn record(payload: &[u8], header_bit: bool, partial: bool) -> Vec<u8> {
    let combined: u32 = ((payload.len() as u32) << 2) | ((partial as u32) << 1) | (header_bit as u32);
    let mut h = crc32fast::Hasher::new();
    h.update(&combined.to_le_bytes());
    h.update(payload);
    let mut out = Vec::with_capacity(8 + payload.len());
    out.extend_from_slice(&h.finalize().to_le_bytes());
    out.extend_from_slice(&combined.to_le_bytes());
    out.extend_from_slice(payload);
    out
}

pub struct Rec<'a> {
    pub payload: &'a [u8],
    pub header_bit: bool,
    pub partial: bool,
    pub total_len: usize,
}

/// Decode the record at the start of `b`; None if there is no valid record.
pub fn read_record(b: &[u8]) -> Option<Rec<'_>> {
    if b.len() < 8 {
        return None;
    }
    let crc = u32::from_le_bytes(b[0..4].try_into().unwrap());
    let combined = u32::from_le_bytes(b[4..8].try_into().unwrap());
    let len = (combined >> 2) as usize;
    if len == 0 || b.len() < 8 + len {
        return None;
    }
    let mut h = crc32fast::Hasher::new();
    h.update(&b[4..8 + len]);
    if h.finalize() != crc {
        return None;
    }
    Some(Rec { payload: &b[8..8 + len], header_bit: combined & 1 == 1, partial: combined & 2 == 2, total_len: 8 + len })
}

// ------------------------------------------------------------------ messages

#[derive(Clone, Debug, PartialEq, Eq)]
pub struct RHeader {
    pub key: [u8; 32],
    pub public_key: [u8; 32],
    /// 32-byte seed of the secret key if present
    pub secret: Option<[u8; 32]>,
    pub fork: u64,
    pub length: u64,
    pub root_hash: Vec<u8>,
    pub signature: Vec<u8>,
    pub contiguous_length: u64,
}

pub const DEFAULT_NAMESPACE: [u8; 32] = [
    0x41, 0x44, 0xEE, 0xA5, 0x31, 0xE4, 0x83, 0xD5, 0x4E, 0x0C, 0x14, 0xF4, 0xCA, 0x68, 0xE0, 0x64, 0x4F, 0x35, 0x53, 0x43, 0xFF, 0x6F, 0xCB, 0x0F,
    0x00, 0x52, 0x00, 0xE1, 0x2C, 0xD7, 0x47, 0xCB,
];

pub fn encode_header(h: &RHeader) -> Vec<u8> {
    let mut o = vec![];
    o.push(1); // version
    o.push(2 | 4); // flags: manifest present, key pair present
    o.extend_from_slice(&h.key);
    // manifest: version 0, hash blake2b (0), type signer (1), signer {ed25519 (0), namespace, public key}
    o.extend_from_slice(&[0, 0, 1, 0]);
    o.extend_from_slice(&DEFAULT_NAMESPACE);
    o.extend_from_slice(&h.public_key);
    // key pair
    put_buf(&mut o, &h.public_key);
    match &h.secret {
        Some(sk) => {
            let mut full = sk.to_vec();
            full.extend_from_slice(&h.public_key);
            put_buf(&mut o, &full);
        }
        None => put_buf(&mut o, &[]),
    }
    put_uint(&mut o, 0); // user data: empty array
    put_uint(&mut o, h.fork);
    put_uint(&mut o, h.length);
    put_buf(&mut o, &h.root_hash);
    put_buf(&mut o, &h.signature);
    put_uint(&mut o, 0); // hints.reorgs: empty array
    put_uint(&mut o, h.contiguous_length);
    o
}

pub fn decode_header(b: &[u8]) -> Result<RHeader, String> {
    let mut r = Rd::new(b);
    let version = r.u8()?;
    if version != 1 {
        return Err(format!("header version {version}"));
    }
    let flags = r.u8()?;
    if flags & 1 != 0 {
        return Err("external header not supported".into());
    }
    let key: [u8; 32] = r.take(32)?.try_into().unwrap();
    if flags & 2 != 0 {
        let mv = r.u8()?;
        let hash = r.u8()?;
        let ty = r.u8()?;
        if mv != 0 || hash != 0 || ty != 1 {
            return Err(format!("manifest prefix {mv},{hash},{ty}"));
        }
        let sig = r.u8()?;
        if sig != 0 {
            return Err(format!("signer signature type {sig}"));
        }
        let ns = r.take(32)?;
        if ns != DEFAULT_NAMESPACE {
            return Err("signer namespace is not the default namespace".into());
        }
        let _pk = r.take(32)?;
    }
    let mut public_key = key;
    let mut secret = None;
    if flags & 4 != 0 {
        let pk = r.buf()?;
        if pk.len() != 32 {
            return Err(format!("public key length {}", pk.len()));
        }
        public_key = pk.try_into().unwrap();
        let sk = r.buf()?;
        match sk.len() {
            0 => {}
            64 => {
                if sk[32..] != public_key {
                    return Err("secret key does not end with the public key".into());
                }
                secret = Some(sk[..32].try_into().unwrap());
            }
            n => return Err(format!("secret key length {n}")),
        }
    }
    let n_ud = r.uint()?;
    for _ in 0..n_ud {
        let _k = r.buf()?;
        let _v = r.buf()?;
    }
    let fork = r.uint()?;
    let length = r.uint()?;
    let root_hash = r.buf()?.to_vec();
    let signature = r.buf()?.to_vec();
    let n_reorgs = r.uint()?;
    for _ in 0..n_reorgs {
        let _from = r.uint()?;
        let _to = r.uint()?;
        let _anc = r.uint()?;
    }
    let contiguous_length = r.uint()?;
    Ok(RHeader { key, public_key, secret, fork, length, root_hash, signature, contiguous_length })
}

#[derive(Clone, Debug, PartialEq, Eq)]
pub struct RUpgrade {
    pub fork: u64,
    pub ancestors: u64,
    pub length: u64,
    pub signature: Vec<u8>,
}

#[derive(Clone, Debug, PartialEq, Eq)]
pub struct RBitfield {
    pub drop: bool,
    pub start: u64,
    pub length: u64,
}

#[derive(Clone, Debug, PartialEq, Eq, Default)]
pub struct REntry {
    pub nodes: Vec<RNode>,
    pub upgrade: Option<RUpgrade>,
    pub bitfield: Option<RBitfield>,
}

pub fn encode_entry(e: &REntry) -> Vec<u8> {
    let mut o = vec![0u8];
    let mut flags = 0u8;
    if !e.nodes.is_empty() {
        flags |= 2;
        put_uint(&mut o, e.nodes.len() as u64);
        for n in &e.nodes {
            put_uint(&mut o, n.index);
            put_uint(&mut o, n.size);
            o.extend_from_slice(&n.hash);
        }
    }
    if let Some(u) = &e.upgrade {
        flags |= 4;
        put_uint(&mut o, u.fork);
        put_uint(&mut o, u.ancestors);
        put_uint(&mut o, u.length);
        put_buf(&mut o, &u.signature);
    }
    if let Some(b) = &e.bitfield {
        flags |= 8;
        o.push(b.drop as u8);
        put_uint(&mut o, b.start);
        put_uint(&mut o, b.length);
    }
    o[0] = flags;
    o
}

pub fn decode_entry(b: &[u8]) -> Result<REntry, String> {
    let mut r = Rd::new(b);
    let flags = r.u8()?;
    let mut e = REntry::default();
    if flags & 1 != 0 {
        let _k = r.buf()?;
        let _v = r.buf()?;
    }
    if flags & 2 != 0 {
        let n = r.uint()?;
        for _ in 0..n {
            let index = r.uint()?;
            let size = r.uint()?;
            let hash: [u8; 32] = r.take(32)?.try_into().unwrap();
            e.nodes.push(RNode { index, size, hash });
        }
    }
    if flags & 4 != 0 {
        e.upgrade = Some(RUpgrade { fork: r.uint()?, ancestors: r.uint()?, length: r.uint()?, signature: r.buf()?.to_vec() });
    }
    if flags & 8 != 0 {
        let f = r.u8()?;
        e.bitfield = Some(RBitfield { drop: f & 1 == 1, start: r.uint()?, length: r.uint()? });
    }
    if r.p != b.len() {
        return Err(format!("entry has {} trailing bytes", b.len() - r.p));
    }
    Ok(e)
}

// ------------------------------------------------------------------ reader

#[derive(Clone, Debug, PartialEq, Eq)]
pub struct Reconstructed {
    pub length: u64,
    pub fork: u64,
    pub byte_length: u64,
    pub public_key: [u8; 32],
    pub writeable: bool,
    pub held: BTreeSet<u64>,
    /// bytes of every held block
    pub blocks: BTreeMap<u64, Vec<u8>>,
    pub entries: usize,
    pub entry_kinds: Vec<&'static str>,
    pub current_slot: u8,
    pub header: RHeader,
    /// tree nodes: file overlaid by entry nodes
    pub nodes: BTreeMap<u64, RNode>,
    pub entry_signatures: Vec<(u64, Vec<u8>)>,
}

fn tree_node(files: &Files, overlay: &BTreeMap<u64, RNode>, i: u64) -> Option<RNode> {
    if let Some(n) = overlay.get(&i) {
        return Some(*n);
    }
    let off = (i * 40) as usize;
    let t = &files[TREE];
    if off + 40 > t.len() {
        return None;
    }
    let size = u64::from_le_bytes(t[off..off + 8].try_into().unwrap());
    let hash: [u8; 32] = t[off + 8..off + 40].try_into().unwrap();
    if hash == [0u8; 32] {
        return None; // blank
    }
    Some(RNode { index: i, size, hash })
}

fn bit_get(bits: &BTreeMap<u64, Vec<u8>>, i: u64) -> bool {
    let page = i / 32768;
    let j = (i % 32768) as usize;
    match bits.get(&page) {
        Some(p) => p[j / 8] & (1 << (j % 8)) != 0,
        None => false,
    }
}

fn bit_set(bits: &mut BTreeMap<u64, Vec<u8>>, i: u64, v: bool) {
    let page = i / 32768;
    let j = (i % 32768) as usize;
    if !v && !bits.contains_key(&page) {
        return;
    }
    let p = bits.entry(page).or_insert_with(|| vec![0u8; 4096]);
    if v {
        p[j / 8] |= 1 << (j % 8);
    } else {
        p[j / 8] &= !(1 << (j % 8));
    }
}

/// Reconstruct the log state from the four raw files, knowing only the JS layout.
pub fn read_store(files: &Files) -> Result<Reconstructed, String> {
    let oplog = &files[OPLOG];
    let h1 = if oplog.len() >= 4096 { read_record(&oplog[..4096]) } else { read_record(&oplog[..oplog.len().min(4096)]) };
    let h2 = if oplog.len() > 4096 { read_record(&oplog[4096..oplog.len().min(8192)]) } else { None };
    let (bits, cur, slot): ([bool; 2], &Rec<'_>, u8) = match (&h1, &h2) {
        (Some(a), Some(b)) => {
            let bits = [a.header_bit, b.header_bit];
            if bits[0] == bits[1] {
                (bits, a, 1)
            } else {
                (bits, b, 2)
            }
        }
        (Some(a), None) => ([a.header_bit, a.header_bit], a, 1),
        (None, Some(b)) => ([!b.header_bit, b.header_bit], b, 2),
        (None, None) => return Err("no valid header in either slot".into()),
    };
    let header = decode_header(cur.payload)?;
    let entry_bit = bits[0] != bits[1];
    // entries
    let mut entries: Vec<(REntry, bool)> = vec![];
    let mut pos = 8192usize;
    while pos < oplog.len() {
        let Some(rec) = read_record(&oplog[pos..]) else { break };
        if rec.header_bit != entry_bit {
            break;
        }
        let e = decode_entry(rec.payload).map_err(|e| format!("entry at {pos}: {e}"))?;
        entries.push((e, rec.partial));
        pos += rec.total_len;
    }
    while entries.last().map(|e| e.1).unwrap_or(false) {
        entries.pop();
    }
    // bitfield pages
    let mut bits_pages: BTreeMap<u64, Vec<u8>> = BTreeMap::new();
    let bf = &files[BITFIELD];
    let mut p = 0usize;
    while p < bf.len() {
        let end = (p + 4096).min(bf.len());
        let mut page = bf[p..end].to_vec();
        page.resize(4096, 0);
        bits_pages.insert((p / 4096) as u64, page);
        p += 4096;
    }
    let mut length = header.length;
    let mut fork = header.fork;
    let mut overlay: BTreeMap<u64, RNode> = BTreeMap::new();
    let mut kinds = vec![];
    let mut entry_signatures = vec![];
    for (e, _) in &entries {
        for n in &e.nodes {
            overlay.insert(n.index, *n);
        }
        if let Some(b) = &e.bitfield {
            for i in b.start..b.start + b.length {
                bit_set(&mut bits_pages, i, !b.drop);
            }
        }
        if let Some(u) = &e.upgrade {
            length = u.length;
            fork = u.fork;
            entry_signatures.push((u.length, u.signature.clone()));
        }
        kinds.push(match (e.upgrade.is_some(), &e.bitfield, e.nodes.is_empty()) {
            (true, Some(b), _) if !b.drop => "append-or-block+upgrade",
            (true, None, _) => "upgrade-only",
            (false, Some(b), true) if b.drop => "clear",
            (false, Some(_), _) => "block-only",
            (false, None, false) => "nodes-only",
            _ => "other",
        });
    }
    // roots and byte length
    let mut byte_length = 0;
    for r in ft::full_roots(length) {
        let n = tree_node(files, &overlay, r).ok_or_else(|| format!("root node {r} of length {length} is missing from the tree"))?;
        byte_length += n.size;
    }
    // held set + blocks
    let mut held = BTreeSet::new();
    let mut blocks = BTreeMap::new();
    let roots = ft::full_roots(length);
    for i in 0..length {
        if !bit_get(&bits_pages, i) {
            continue;
        }
        held.insert(i);
        // offset: walk from the root that contains leaf 2i
        let leaf = 2 * i;
        let mut off = 0u64;
        let mut found = false;
        for r in &roots {
            if leaf > ft::right_span(*r) {
                off += tree_node(files, &overlay, *r).ok_or_else(|| format!("root {r} missing"))?.size;
                continue;
            }
            let mut cur = *r;
            while cur != leaf {
                let l = ft::left_child(cur).unwrap();
                let rch = ft::right_child(cur).unwrap();
                if leaf <= ft::right_span(l) {
                    cur = l;
                } else {
                    off += tree_node(files, &overlay, l).ok_or_else(|| format!("tree node {l} needed for the offset of block {i} is missing"))?.size;
                    cur = rch;
                }
            }
            found = true;
            break;
        }
        if !found {
            return Err(format!("block {i} not under any root"));
        }
        let size = tree_node(files, &overlay, leaf).ok_or_else(|| format!("leaf node {leaf} of held block {i} is missing"))?.size;
        let d = &files[DATA];
        let bytes = if size == 0 {
            vec![]
        } else {
            if (off + size) as usize > d.len() {
                return Err(format!("data of held block {i} ({off}+{size}) lies beyond the data file ({})", d.len()));
            }
            d[off as usize..(off + size) as usize].to_vec()
        };
        blocks.insert(i, bytes);
    }
    // no bit at or beyond the length
    for (page, bytes) in &bits_pages {
        for (bi, b) in bytes.iter().enumerate() {
            if *b != 0 {
                for k in 0..8 {
                    if b & (1 << k) != 0 {
                        let idx = page * 32768 + (bi * 8 + k) as u64;
                        if idx >= length {
                            return Err(format!("bitfield has bit {idx} set beyond length {length}"));
                        }
                    }
                }
            }
        }
    }
    let mut nodes = BTreeMap::new();
    for i in RefTree::full_indices(length) {
        if let Some(n) = tree_node(files, &overlay, i) {
            nodes.insert(i, n);
        }
    }
    Ok(Reconstructed {
        length,
        fork,
        byte_length,
        public_key: header.public_key,
        writeable: header.secret.is_some(),
        held,
        blocks,
        entries: entries.len(),
        entry_kinds: kinds,
        current_slot: slot,
        header,
        nodes,
        entry_signatures,
    })
}

// ------------------------------------------------------------------ writer

#[derive(Clone, Debug, PartialEq, Eq, Hash, serde::Serialize, serde::Deserialize)]
pub enum ROp {
    Append(Vec<crate::model::Blk>),
    Clear { a: u16, n: u8 },
    /// n one-byte blocks (multi-page bitfields, deep trees)
    BigAppend(u32),
}

fn rop_blocks(op: &ROp, base: u64) -> Option<Vec<Vec<u8>>> {
    match op {
        ROp::Append(bs) => Some(bs.iter().map(|b| b.bytes()).collect()),
        ROp::BigAppend(n) => Some((0..*n as u64).map(|i| vec![((base + i) % 251) as u8]).collect()),
        ROp::Clear { .. } => None,
    }
}

#[derive(Clone, Debug, PartialEq, Eq, Hash, serde::Serialize, serde::Deserialize)]
pub struct StoreDesc {
    pub ops: Vec<ROp>,
    /// selector: number of ops folded into the header state
    pub flush_sel: u16,
    /// selector: an older flush point for the header in the other slot (when present)
    pub older_sel: u16,
    /// 0: h1 current bits (0,0); 1: h2 current (0,1); 2: h1 current (1,1); 3: h2 current (1,0)
    pub rotation: u8,
    /// other slot: 0 = older valid header, 1 = zeros, 2 = absent/garbage with bad checksum
    pub other_slot: u8,
    pub with_secret: bool,
    /// how many trailing entries are flagged partial
    pub partial_tail: u8,
    /// append stale entries (other header bit) after the valid ones
    pub stale_tail: bool,
    /// append a torn entry at the very end
    pub torn_tail: bool,
    /// kept entries flagged partial although a later kept entry completes their batch (bit i%16 for
    /// entry i; the last kept entry is never flagged): complete atomic batches in the middle of the log
    #[serde(default)]
    pub partial_mask: u16,
    /// selector of the fork counter the storage carries (JavaScript cores that were truncated have
    /// fork > 0): headers, upgrade entries and signatures all use it
    #[serde(default)]
    pub fork_sel: u8,
}

pub const FORKS: [u64; 8] = [0, 0, 0, 0, 0, 1, 2, 300];

impl StoreDesc {
    pub fn fork(&self) -> u64 {
        FORKS[self.fork_sel as usize % FORKS.len()]
    }
}

pub struct Synth {
    pub files: Files,
    pub expected: crate::model::ListModel,
    pub entries_kept: usize,
    pub entries_written: usize,
}

struct Fold {
    tree: RefTree,
    model: crate::model::ListModel,
    data: Vec<u8>,
}

impl Fold {
    fn new() -> Self {
        Fold { tree: RefTree::new(), model: crate::model::ListModel::new(), data: vec![] }
    }
}

fn sign_at(tree: &RefTree, len: u64, fork: u64, sk: &SigningKey) -> Vec<u8> {
    sk.sign(&tree.signable_at(len, fork)).to_bytes().to_vec()
}

/// Nodes completed by appending blocks [from, to): leaves and parents, in the order the
/// changeset produces them (leaf, then each parent completed by it).
fn new_nodes(tree: &RefTree, from: u64, to: u64) -> Vec<RNode> {
    let mut out = vec![];
    for i in from..to {
        let mut idx = 2 * i;
        out.push(*tree.get(idx).unwrap());
        // parents completed by this leaf: while idx is a right child
        while ft::offset(idx) & 1 == 1 {
            let p = ft::parent(idx);
            match tree.get(p) {
                Some(n) if ft::right_span(p) <= 2 * i => {
                    out.push(*n);
                    idx = p;
                }
                _ => break,
            }
        }
    }
    out
}

/// Build JS-valid storage from a description.
pub fn synthesize(desc: &StoreDesc, sk_seed: &[u8; 32]) -> Synth {
    use crate::model::sel;
    let sk = SigningKey::from_bytes(sk_seed);
    let pk = sk.verifying_key().to_bytes();
    let n_ops = desc.ops.len() as u64;
    let f = sel(desc.flush_sel, n_ops + 1) as usize; // ops[..f] folded into the header
    let older = sel(desc.older_sel, f as u64 + 1) as usize;
    let fork = desc.fork();

    let mut fold = Fold::new();
    let mut bits: BTreeMap<u64, Vec<u8>> = BTreeMap::new();
    let mut tree_file: Vec<u8> = vec![];
    let mut entries: Vec<REntry> = vec![];
    let mut older_header: Option<RHeader> = None;
    let mk_header = |fold: &Fold| -> RHeader {
        let len = fold.model.len();
        RHeader {
            key: pk,
            public_key: pk,
            secret: if desc.with_secret { Some(*sk_seed) } else { None },
            fork,
            length: len,
            root_hash: if len == 0 { vec![] } else { fold.tree.tree_hash_at(len).to_vec() },
            signature: if len == 0 { vec![] } else { sign_at(&fold.tree, len, fork, &sk) },
            contiguous_length: fold.model.contiguous(),
        }
    };
    let mut header: Option<RHeader> = None;
    for (k, op) in desc.ops.iter().enumerate() {
        if k == older {
            older_header = Some(mk_header(&fold));
        }
        if k == f {
            header = Some(mk_header(&fold));
        }
        let folded = k < f;
        match op {
            ROp::Append(_) | ROp::BigAppend(_) => {
                let blocks = rop_blocks(op, fold.model.len()).unwrap();
                if blocks.is_empty() {
                    continue;
                }
                let from = fold.model.len();
                for bytes in blocks {
                    fold.tree.append(&bytes);
                    // data is written at the block's byte offset (a truncated tail is re-extended with zeros)
                    let off = fold.model.byte_length as usize;
                    if fold.data.len() < off {
                        fold.data.resize(off, 0);
                    }
                    fold.data.truncate(off);
                    fold.data.extend_from_slice(&bytes);
                    fold.model.append(bytes);
                }
                let to = fold.model.len();
                let nodes = new_nodes(&fold.tree, from, to);
                if folded {
                    for n in &nodes {
                        let off = (n.index * 40) as usize;
                        if tree_file.len() < off + 40 {
                            tree_file.resize(off + 40, 0);
                        }
                        tree_file[off..off + 8].copy_from_slice(&n.size.to_le_bytes());
                        tree_file[off + 8..off + 40].copy_from_slice(&n.hash);
                    }
                    for i in from..to {
                        bit_set(&mut bits, i, true);
                    }
                } else {
                    entries.push(REntry {
                        nodes,
                        upgrade: Some(RUpgrade { fork, ancestors: from, length: to, signature: sign_at(&fold.tree, to, fork, &sk) }),
                        bitfield: Some(RBitfield { drop: false, start: from, length: to - from }),
                    });
                }
            }
            ROp::Clear { a, n } => {
                let len = fold.model.len();
                if len == 0 {
                    continue;
                }
                let start = sel(*a, len);
                let end = (start + 1 + *n as u64).min(len + 2);
                // data: zero-fill the biggest hole around the range, truncate if it reaches the end
                fold.model.clear(start, end);
                let mut s = start;
                while s > 0 && !fold.model.has(s - 1) {
                    s -= 1;
                }
                let mut e = end.min(len);
                while e < len && !fold.model.has(e) {
                    e += 1;
                }
                let bo = fold.model.offset(s) as usize;
                let eo = if e >= len { fold.model.byte_length as usize } else { fold.model.offset(e) as usize };
                // a clear that is still only an oplog entry leaves the data untouched here
                // (the state between writing the entry and deleting the bytes)
                if folded && eo > bo && bo <= fold.data.len() {
                    if eo >= fold.data.len() {
                        fold.data.truncate(bo);
                    } else {
                        for x in &mut fold.data[bo..eo] {
                            *x = 0;
                        }
                    }
                }
                if folded {
                    for i in start..end {
                        bit_set(&mut bits, i, false);
                    }
                } else {
                    entries.push(REntry { nodes: vec![], upgrade: None, bitfield: Some(RBitfield { drop: true, start, length: end - start }) });
                }
            }
        }
        // data written behind a truncated tail re-extends the file with zeros
        let want = fold.model.byte_length as usize;
        let _ = want;
    }
    if older_header.is_none() {
        older_header = Some(mk_header(&fold));
    }
    let header = header.unwrap_or_else(|| mk_header(&fold));
    // The expected state: header state + kept entries. Trailing partial entries are dropped.
    let m = (desc.partial_tail as usize).min(entries.len());
    let kept = entries.len() - m;
    // expected model = replay ops[..f] and the first `kept` entry-producing ops
    let mut expected = crate::model::ListModel::new();
    expected.writeable = desc.with_secret;
    expected.fork = fork;
    {
        let mut entry_ops = 0usize;
        for (k, op) in desc.ops.iter().enumerate() {
            let produces_entry = match op {
                ROp::Append(bs) => !bs.is_empty(),
                ROp::BigAppend(n) => *n > 0,
                ROp::Clear { .. } => !expected.is_empty(),
            };
            if k >= f && produces_entry {
                if entry_ops >= kept {
                    break;
                }
                entry_ops += 1;
            }
            match op {
                ROp::Append(_) | ROp::BigAppend(_) => rop_blocks(op, expected.len()).unwrap().into_iter().for_each(|b| expected.append(b)),
                ROp::Clear { a, n } => {
                    let len = expected.len();
                    if len > 0 {
                        let start = sel(*a, len);
                        let end = (start + 1 + *n as u64).min(len + 2);
                        expected.clear(start, end);
                    }
                }
            }
        }
    }
    // oplog
    let (b0, b1, cur_is_h2) = match desc.rotation % 4 {
        0 => (false, false, false),
        1 => (false, true, true),
        2 => (true, true, false),
        _ => (true, false, true),
    };
    let entry_bit = b0 != b1;
    let cur_bytes = record(&encode_header(&header), if cur_is_h2 { b1 } else { b0 }, false);
    let other_bit = if cur_is_h2 { b0 } else { b1 };
    let other_bytes: Vec<u8> = match desc.other_slot % 3 {
        0 => record(&encode_header(older_header.as_ref().unwrap()), other_bit, false),
        1 => vec![],
        _ => {
            let mut r = record(&encode_header(older_header.as_ref().unwrap()), other_bit, false);
            let n = r.len();
            r[n / 2] ^= 0xff; // checksum mismatch
            r
        }
    };
    // when the other slot holds no valid header, the reader derives the bits from the valid one:
    //   only h1 valid -> bits (b,b) -> h1 current, entry bit 0
    //   only h2 valid -> bits (!b,b) -> h2 current, entry bit 1
    let other_valid = desc.other_slot % 3 == 0;
    let entry_bit = if other_valid { entry_bit } else { cur_is_h2 };
    let mut oplog = vec![0u8; 8192];
    let (cur_off, other_off) = if cur_is_h2 { (4096, 0) } else { (0, 4096) };
    oplog[cur_off..cur_off + cur_bytes.len()].copy_from_slice(&cur_bytes);
    oplog[other_off..other_off + other_bytes.len()].copy_from_slice(&other_bytes);
    let n_entries = entries.len();
    for (i, e) in entries.iter().enumerate() {
        let partial = i >= kept || (i + 1 < kept && (desc.partial_mask >> (i % 16)) & 1 == 1);
        oplog.extend_from_slice(&record(&encode_entry(e), entry_bit, partial));
    }
    if desc.stale_tail {
        // leftovers of an earlier generation: valid records carrying the other header bit
        let stale = REntry { nodes: vec![], upgrade: None, bitfield: Some(RBitfield { drop: true, start: 0, length: 1 }) };
        oplog.extend_from_slice(&record(&encode_entry(&stale), !entry_bit, false));
        oplog.extend_from_slice(&record(&encode_entry(&stale), !entry_bit, false));
    }
    if desc.torn_tail {
        let stale = REntry { nodes: vec![], upgrade: None, bitfield: Some(RBitfield { drop: true, start: 0, length: 1 }) };
        let r = record(&encode_entry(&stale), entry_bit, false);
        oplog.extend_from_slice(&r[..r.len() - 2]);
    }
    if oplog.len() == 8192 && n_entries == 0 && !desc.stale_tail && !desc.torn_tail {
        // JS truncates the oplog to the end of the entries
    }
    // bitfield file
    let mut bitfield = vec![];
    if let Some((&maxp, _)) = bits.iter().next_back() {
        bitfield.resize(((maxp + 1) * 4096) as usize, 0);
        for (p, bytes) in &bits {
            let off = (*p * 4096) as usize;
            bitfield[off..off + 4096].copy_from_slice(bytes);
        }
    }
    let mut files: Files = Default::default();
    files[TREE] = tree_file;
    files[DATA] = fold.data;
    files[BITFIELD] = bitfield;
    files[OPLOG] = oplog;
    Synth { files, expected, entries_kept: kept, entries_written: n_entries }
}
