//! Reference models (none of them calls into /repo).

use serde::{Deserialize, Serialize};
use std::collections::BTreeSet;

/// The append-only list model of a writer core.
#[derive(Clone, Debug, PartialEq, Eq, Serialize, Deserialize)]
pub struct ListModel {
    pub blocks: Vec<Option<Vec<u8>>>,
    /// sizes of all blocks ever appended (cleared ones included)
    pub sizes: Vec<u64>,
    pub byte_length: u64,
    pub writeable: bool,
    /// fork counter the core must report (0 unless the storage was laid out with another one)
    #[serde(default)]
    pub fork: u64,
}

impl Default for ListModel {
    fn default() -> Self {
        Self::new()
    }
}

impl ListModel {
    pub fn new() -> Self {
        ListModel { blocks: vec![], sizes: vec![], byte_length: 0, writeable: true, fork: 0 }
    }
    pub fn len(&self) -> u64 {
        self.blocks.len() as u64
    }
    pub fn is_empty(&self) -> bool {
        self.blocks.is_empty()
    }
    pub fn append(&mut self, b: Vec<u8>) {
        self.byte_length += b.len() as u64;
        self.sizes.push(b.len() as u64);
        self.blocks.push(Some(b));
    }
    pub fn clear(&mut self, start: u64, end: u64) {
        let end = end.min(self.len());
        for i in start..end {
            self.blocks[i as usize] = None;
        }
    }
    pub fn get(&self, i: u64) -> Option<&Vec<u8>> {
        if i < self.len() {
            self.blocks[i as usize].as_ref()
        } else {
            None
        }
    }
    pub fn has(&self, i: u64) -> bool {
        self.get(i).is_some()
    }
    pub fn contiguous(&self) -> u64 {
        self.blocks.iter().position(|b| b.is_none()).map(|p| p as u64).unwrap_or(self.len())
    }
    /// byte offset of block i = sum of sizes before it
    pub fn offset(&self, i: u64) -> u64 {
        self.sizes[..i as usize].iter().sum()
    }
}

/// What an honest replica must hold.
#[derive(Clone, Debug, PartialEq, Eq, Serialize, Deserialize)]
pub struct ReplicaModel {
    pub length: u64,
    pub byte_length: u64,
    pub held: BTreeSet<u64>,
}

impl Default for ReplicaModel {
    fn default() -> Self {
        Self::new()
    }
}

impl ReplicaModel {
    pub fn new() -> Self {
        ReplicaModel { length: 0, byte_length: 0, held: BTreeSet::new() }
    }
    pub fn contiguous(&self) -> u64 {
        let mut c = 0;
        while self.held.contains(&c) {
            c += 1;
        }
        c
    }
}

/// Deterministic block content from a compact descriptor.
#[derive(Clone, Copy, Debug, PartialEq, Eq, Hash, Serialize, Deserialize)]
pub struct Blk {
    pub len: u32,
    pub fill: u8,
}

impl Blk {
    pub fn bytes(&self) -> Vec<u8> {
        let mut v = Vec::with_capacity(self.len as usize);
        let mut x = self.fill;
        for i in 0..self.len {
            v.push(x);
            x = x.wrapping_mul(31).wrapping_add(17).wrapping_add(i as u8);
        }
        v
    }
}

/// Monotone selector mapping: `sel` in 0..=65535 onto `0..n` (n > 0).
pub fn sel(x: u16, n: u64) -> u64 {
    debug_assert!(n > 0);
    ((x as u128 * n as u128) >> 16) as u64
}
