use hcverif::props;
use hcverif::runner::{Check, Ctx, Tier};
use serde_json::Value;

struct Prop {
    id: &'static str,
    level: &'static str,
    run: fn(&Ctx),
    replay: fn(&Value) -> Check,
}

const PROPS: &[Prop] = &[
    Prop { id: "C01", level: "exploration", run: props::c01::run, replay: props::c01::replay },
    Prop { id: "C02", level: "fault_enumeration", run: props::c02::run, replay: props::c02::replay },
    Prop { id: "C03", level: "exploration", run: props::c03::run, replay: props::c03::replay },
    Prop { id: "C04", level: "exploration", run: props::c04::run, replay: props::c04::replay },
    Prop { id: "C05", level: "exploration", run: props::c05::run, replay: props::c05::replay },
    Prop { id: "C06", level: "exploration", run: props::c06::run, replay: props::c06::replay },
    Prop { id: "C07", level: "fault_enumeration", run: props::c07::run, replay: props::c07::replay },
    Prop { id: "C08", level: "exploration", run: props::c08::run, replay: props::c08::replay },
    Prop { id: "C09", level: "exploration", run: props::c09::run, replay: props::c09::replay },
    Prop { id: "C10", level: "fault_enumeration", run: props::c10::run, replay: props::c10::replay },
    Prop { id: "C11", level: "exploration", run: props::c11::run, replay: props::c11::replay },
    Prop { id: "C12", level: "exploration", run: props::c12::run, replay: props::c12::replay },
    Prop { id: "C13", level: "exploration", run: props::c13::run, replay: props::c13::replay },
    Prop { id: "C14", level: "exploration", run: props::c14::run, replay: props::c14::replay },
    Prop { id: "C15", level: "exploration", run: props::c15::run, replay: props::c15::replay },
];

fn usage() -> ! {
    eprintln!("usage: hcv <Cxx> quick|thorough | hcv <Cxx> --replay <file>");
    std::process::exit(2);
}

fn main() {
    // address-space cap so that a runaway allocation aborts instead of taking the sandbox down
    unsafe {
        let lim = libc::rlimit { rlim_cur: 40 << 30, rlim_max: 40 << 30 };
        libc::setrlimit(libc::RLIMIT_AS, &lim);
    }
    hcverif::exec::install_hook();
    let args: Vec<String> = std::env::args().collect();
    if args.len() < 3 {
        usage();
    }
    let Some(p) = PROPS.iter().find(|p| p.id == args[1]) else {
        eprintln!("unknown property {}", args[1]);
        std::process::exit(2);
    };
    let seed: u64 = std::env::var("VERIF_SEED").ok().and_then(|s| s.parse().ok()).unwrap_or(1);
    if args[2] == "--replay" {
        let path = args.get(3).unwrap_or_else(|| usage());
        let txt = std::fs::read_to_string(path).expect("read replay file");
        let v: Value = serde_json::from_str(&txt).expect("parse replay file");
        let case = v.get("case").cloned().unwrap_or(v.clone());
        match (p.replay)(&case) {
            Ok(()) => {
                println!("replay: property {} held on {}", p.id, path);
                std::process::exit(0);
            }
            Err(f) => {
                eprintln!("replay failure [{}]: {}", f.kind, f.detail);
                println!("VIOLATION property={} replay={}", p.id, path);
                std::process::exit(1);
            }
        }
    }
    let tier = match args[2].as_str() {
        "quick" => Tier::Quick,
        "thorough" => Tier::Thorough,
        _ => usage(),
    };
    let strict = std::env::var("VERIF_STRICT").is_ok();
    let ctx = Ctx::new(p.id, p.level, tier, seed, strict);
    // regression replays first
    let dir = format!("/verif/regress/{}", p.id);
    if let Ok(rd) = std::fs::read_dir(&dir) {
        let mut files: Vec<_> = rd.filter_map(|e| e.ok()).map(|e| e.path()).filter(|p| p.extension().map(|x| x == "json").unwrap_or(false)).collect();
        files.sort();
        let mut n = 0;
        for f in files {
            let txt = std::fs::read_to_string(&f).expect("read regress file");
            let v: Value = serde_json::from_str(&txt).expect("parse regress file");
            let case = v.get("case").cloned().unwrap_or(v.clone());
            n += 1;
            if let Err(fail) = (p.replay)(&case) {
                if !ctx.is_known(&fail) {
                    ctx.report_failure(fail, case, &format!("regress:{}", f.display()));
                }
            }
        }
        ctx.stage_done("regress", serde_json::json!({"files": n}));
    }
    ctx.with_watchdog(|| (p.run)(&ctx));
    std::process::exit(ctx.finish());
}
