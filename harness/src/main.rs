use hcverif::props;
use hcverif::runner::{Check, Ctx, Tier};
use serde_json::Value;

struct Prop {
    id: &'static str,
    level: &'static str,
    run: fn(&Ctx),
    replay: fn(&Value) -> Check,
}

const PROPS: &[Prop] = &[
    Prop { id: "C01", level: "exploration", run: props::c01::run, replay: props::c01::replay },
    Prop { id: "C02", level: "fault_enumeration", run: props::c02::run, replay: props::c02::replay },
    Prop { id: "C03", level: "exploration", run: props::c03::run, replay: props::c03::replay },
    Prop { id: "C04", level: "exploration", run: props::c04::run, replay: props::c04::replay },
    Prop { id: "C05", level: "exploration", run: props::c05::run, replay: props::c05::replay },
    Prop { id: "C06", level: "exploration", run: props::c06::run, replay: props::c06::replay },
    Prop { id: "C07", level: "fault_enumeration", run: props::c07::run, replay: props::c07::replay },
    Prop { id: "C08", level: "exploration", run: props::c08::run, replay: props::c08::replay },
    Prop { id: "C09", level: "exploration", run: props::c09::run, replay: props::c09::replay },
    Prop { id: "C10", level: "fault_enumeration", run: props::c10::run, replay: props::c10::replay },
    Prop { id: "C11", level: "exploration", run: props::c11::run, replay: props::c11::replay },
    Prop { id: "C12", level: "exploration", run: props::c12::run, replay: props::c12::replay },
    Prop { id: "C13", level: "exploration", run: props::c13::run, replay: props::c13::replay },
    Prop { id: "C14", level: "exploration", run: props::c14::run, replay: props::c14::replay },
    Prop { id: "C15", level: "exploration", run: props::c15::run, replay: props::c15::replay },
];

fn fuzz_target_of(prop: &str) -> Option<hcverif::fuzz::Target> {
    use hcverif::fuzz::Target;
    match prop {
        "C01" => Some(Target::Ops),
        "C04" => Some(Target::Proof),
        "C06" => Some(Target::Storage),
        "C09" => Some(Target::Request),
        _ => None,
    }
}

/// Thorough tier: fold the libFuzzer campaign that ./check ran just before (summary file in
/// HCV_FUZZ_SUMMARY) into the evidence and re-check every artifact it saved with the same oracle.
fn fuzz_stage(ctx: &Ctx, prop: &str) {
    let Ok(path) = std::env::var("HCV_FUZZ_SUMMARY") else { return };
    let Some(t) = fuzz_target_of(prop) else { return };
    let Ok(txt) = std::fs::read_to_string(&path) else { return };
    let Ok(v) = serde_json::from_str::<Value>(&txt) else { return };
    let execs = v.get("execs_done").and_then(|x| x.as_u64()).unwrap_or(0);
    let mut local = ctx.new_local();
    local.evals += execs;
    local.class_n("libfuzzer_executions", execs);
    if let Some(arts) = v.get("new_artifacts").and_then(|a| a.as_array()) {
        for a in arts {
            let Some(ap) = a.as_str() else { continue };
            let Ok(raw) = std::fs::read(ap) else { continue };
            ctx.slot_begin(0, "libfuzzer-artifact", || format!("{{\"artifact\":\"{ap}\"}}"));
            let (case, r) = hcverif::fuzz::run_target(t, &raw);
            ctx.slot_end(0);
            local.class("libfuzzer_artifacts_rechecked");
            if let Err(f) = r {
                if !ctx.is_known(&f) {
                    ctx.report_failure(f, case, &format!("libfuzzer:{ap}"));
                }
            } else {
                local.class("libfuzzer_artifacts_not_reproduced");
            }
        }
    }
    ctx.merge(local);
    ctx.extra("libfuzzer_stage", v);
    ctx.stage_done("libfuzzer", serde_json::json!({"execs": execs}));
}

fn usage() -> ! {
    eprintln!("usage: hcv <Cxx> quick|thorough | hcv <Cxx> --replay <file>");
    std::process::exit(2);
}

fn main() {
    // address-space cap so that a runaway allocation aborts instead of taking the sandbox down
    unsafe {
        let lim = libc::rlimit { rlim_cur: 40 << 30, rlim_max: 40 << 30 };
        libc::setrlimit(libc::RLIMIT_AS, &lim);
    }
    hcverif::exec::install_hook();
    let args: Vec<String> = std::env::args().collect();
    if args.len() < 3 {
        usage();
    }
    if args[1] == "fuzzcase" {
        // hcv fuzzcase <target> <file>: decode libFuzzer input bytes exactly as the fuzz target does and check the case
        let t = hcverif::fuzz::Target::parse(&args[2]).unwrap_or_else(|| usage());
        let data = std::fs::read(args.get(3).unwrap_or_else(|| usage())).expect("read input file");
        let (case, r) = hcverif::fuzz::run_target(t, &data);
        println!("case: {}", hcverif::runner::truncate(&case.to_string(), 2000));
        match r {
            Ok(()) => {
                println!("replay: property {} held on this input", t.property());
                std::process::exit(0);
            }
            Err(f) => {
                eprintln!("failure [{}]: {}", f.kind, f.detail);
                println!("VIOLATION property={} replay={}", t.property(), args[3]);
                std::process::exit(1);
            }
        }
    }
    let Some(p) = PROPS.iter().find(|p| p.id == args[1]) else {
        eprintln!("unknown property {}", args[1]);
        std::process::exit(2);
    };
    let seed: u64 = std::env::var("VERIF_SEED").ok().and_then(|s| s.parse().ok()).unwrap_or(1);
    if args[2] == "--replay" {
        let path = args.get(3).unwrap_or_else(|| usage());
        let raw = std::fs::read(path).expect("read replay file");
        let parsed: Option<Value> = std::str::from_utf8(&raw).ok().and_then(|t| serde_json::from_str(t).ok());
        let Some(v) = parsed else {
            // not JSON: a raw libFuzzer artifact of this property's fuzz target
            let t = fuzz_target_of(p.id).unwrap_or_else(|| {
                eprintln!("{} has no fuzz target; the replay file is not JSON", p.id);
                std::process::exit(2)
            });
            let (case, r) = hcverif::fuzz::run_target(t, &raw);
            eprintln!("decoded case: {}", hcverif::runner::truncate(&case.to_string(), 2000));
            match r {
                Ok(()) => {
                    println!("replay: property {} held on {}", p.id, path);
                    std::process::exit(0);
                }
                Err(f) => {
                    eprintln!("replay failure [{}]: {}", f.kind, f.detail);
                    println!("VIOLATION property={} replay={}", p.id, path);
                    std::process::exit(1);
                }
            }
        };
        let case = v.get("case").cloned().unwrap_or(v.clone());
        match (p.replay)(&case) {
            Ok(()) => {
                println!("replay: property {} held on {}", p.id, path);
                std::process::exit(0);
            }
            Err(f) => {
                eprintln!("replay failure [{}]: {}", f.kind, f.detail);
                println!("VIOLATION property={} replay={}", p.id, path);
                std::process::exit(1);
            }
        }
    }
    let tier = match args[2].as_str() {
        "quick" => Tier::Quick,
        "thorough" => Tier::Thorough,
        _ => usage(),
    };
    let strict = std::env::var("VERIF_STRICT").is_ok();
    let ctx = Ctx::new(p.id, p.level, tier, seed, strict);
    ctx.with_watchdog(|| {
        // regression replays first
        let dir = format!("{}/regress/{}", hcverif::runner::verif_dir(), p.id);
        if let Ok(rd) = std::fs::read_dir(&dir) {
            let mut files: Vec<_> = rd.filter_map(|e| e.ok()).map(|e| e.path()).filter(|p| p.extension().map(|x| x == "json").unwrap_or(false)).collect();
            files.sort();
            let mut n = 0;
            for f in files {
                let txt = std::fs::read_to_string(&f).expect("read regress file");
                let v: Value = serde_json::from_str(&txt).expect("parse regress file");
                let case = v.get("case").cloned().unwrap_or(v.clone());
                n += 1;
                ctx.slot_begin(0, "regress", || case.to_string());
                let r = (p.replay)(&case);
                ctx.slot_end(0);
                if let Err(fail) = r {
                    if !ctx.is_known(&fail) {
                        ctx.report_failure(fail, case, &format!("regress:{}", f.display()));
                    }
                }
            }
            ctx.stage_done("regress", serde_json::json!({"files": n}));
        }
        (p.run)(&ctx);
        fuzz_stage(&ctx, p.id);
    });
    std::process::exit(ctx.finish());
}
