//! Instrumented in-memory storage backend ("the disk" owned by the harness).
//!
//! One `Disk` = four files (tree, data, bitfield, oplog) that outlive any `Hypercore`
//! instance built on top of them.  Semantics copy the stock `random-access-memory` /
//! `random-access-disk` backends (C14 cross-validates that byte for byte):
//!   * write past the end extends the file with zeros,
//!   * read with `offset+len > file length` is `OutOfBounds`,
//!   * del: `offset > len` is `OutOfBounds`; length 0 is a no-op; a range reaching the end
//!     truncates to `offset`; otherwise zero-fills,
//!   * truncate sets the length (extending with zeros).
//!
//! Modes (all optional, all driven by the harness):
//!   * journal of every mutating operation (crash points, torn writes),
//!   * the k-th operation (reads and length queries included) fails with an IO error,
//!   * every operation first suspends once (`Pending`) so a scheduler can preempt there,
//!     and is tagged with the id of the task being polled.

use async_trait::async_trait;
use hypercore::{Storage, StorageTraits, Store};
use random_access_storage::{RandomAccess, RandomAccessError};
use serde::{Deserialize, Serialize};
use std::future::Future;
use std::pin::Pin;
use std::sync::atomic::{AtomicBool, AtomicI64, AtomicU32, AtomicU64, Ordering};
use std::sync::{Arc, Mutex};
use std::task::{Context, Poll};

pub const TREE: usize = 0;
pub const DATA: usize = 1;
pub const BITFIELD: usize = 2;
pub const OPLOG: usize = 3;
pub const STORE_NAMES: [&str; 4] = ["tree", "data", "bitfield", "oplog"];

pub fn store_idx(s: &Store) -> usize {
    match s {
        Store::Tree => TREE,
        Store::Data => DATA,
        Store::Bitfield => BITFIELD,
        Store::Oplog => OPLOG,
    }
}

/// A mutating storage operation, as recorded in the journal.
#[derive(Clone, Debug, PartialEq, Eq, Serialize, Deserialize)]
pub enum JOp {
    Write { s: usize, off: u64, data: Vec<u8> },
    Del { s: usize, off: u64, len: u64 },
    Truncate { s: usize, len: u64 },
}

impl JOp {
    pub fn store(&self) -> usize {
        match self {
            JOp::Write { s, .. } | JOp::Del { s, .. } | JOp::Truncate { s, .. } => *s,
        }
    }
    pub fn brief(&self) -> String {
        match self {
            JOp::Write { s, off, data } => format!("write {}@{}+{}", STORE_NAMES[*s], off, data.len()),
            JOp::Del { s, off, len } => format!("del {}@{}+{}", STORE_NAMES[*s], off, len),
            JOp::Truncate { s, len } => format!("truncate {}@{}", STORE_NAMES[*s], len),
        }
    }
}

pub type Files = [Vec<u8>; 4];

pub fn empty_files() -> Files {
    [Vec::new(), Vec::new(), Vec::new(), Vec::new()]
}

fn f_write(f: &mut Vec<u8>, off: u64, data: &[u8]) {
    let off = off as usize;
    let end = off + data.len();
    if f.len() < end {
        f.resize(end, 0);
    }
    f[off..end].copy_from_slice(data);
}

fn f_del(f: &mut Vec<u8>, off: u64, len: u64) -> Result<(), (u64, u64)> {
    let flen = f.len() as u64;
    if off > flen {
        return Err((off, flen));
    }
    if len == 0 {
        return Ok(());
    }
    if off.saturating_add(len) >= flen {
        f.truncate(off as usize);
        return Ok(());
    }
    for b in &mut f[off as usize..(off + len) as usize] {
        *b = 0;
    }
    Ok(())
}

fn f_truncate(f: &mut Vec<u8>, len: u64) {
    f.resize(len as usize, 0);
}

/// Apply one journal operation to plain files (used to rebuild crash states).
pub fn apply(files: &mut Files, op: &JOp) {
    match op {
        JOp::Write { s, off, data } => f_write(&mut files[*s], *off, data),
        JOp::Del { s, off, len } => {
            let _ = f_del(&mut files[*s], *off, *len);
        }
        JOp::Truncate { s, len } => f_truncate(&mut files[*s], *len),
    }
}

/// Apply only the first `c` bytes of a write (a torn write).
pub fn apply_torn(files: &mut Files, op: &JOp, c: usize) {
    if let JOp::Write { s, off, data } = op {
        f_write(&mut files[*s], *off, &data[..c.min(data.len())]);
    } else {
        panic!("apply_torn on a non-write");
    }
}

/// Tag of one storage operation in yielding mode (C15).
#[derive(Clone, Debug, PartialEq, Eq)]
pub struct Tagged {
    pub task: u32,
    pub store: usize,
    pub kind: &'static str,
    pub mutating: bool,
}

#[derive(Debug)]
pub struct Ctl {
    pub files: Mutex<Files>,
    pub journaling: AtomicBool,
    pub journal: Mutex<Vec<JOp>>,
    /// Number of storage operations issued so far (reads and len included).
    pub opcount: AtomicU64,
    /// Number of mutating operations issued so far.
    pub mutcount: AtomicU64,
    /// Operation index that fails once with an IO error (-1: none).
    pub fault_at: AtomicI64,
    pub fault_hit: AtomicBool,
    /// kind of the op that was failed
    pub fault_kind: Mutex<Option<String>>,
    pub yielding: AtomicBool,
    pub cur_task: AtomicU32,
    pub tagged: Mutex<Vec<Tagged>>,
}

#[derive(Clone, Debug)]
pub struct Disk(pub Arc<Ctl>);

impl Default for Disk {
    fn default() -> Self {
        Self::new()
    }
}

impl Disk {
    pub fn new() -> Self {
        Self::from_files(empty_files())
    }
    pub fn from_files(files: Files) -> Self {
        Disk(Arc::new(Ctl {
            files: Mutex::new(files),
            journaling: AtomicBool::new(false),
            journal: Mutex::new(Vec::new()),
            opcount: AtomicU64::new(0),
            mutcount: AtomicU64::new(0),
            fault_at: AtomicI64::new(-1),
            fault_hit: AtomicBool::new(false),
            fault_kind: Mutex::new(None),
            yielding: AtomicBool::new(false),
            cur_task: AtomicU32::new(0),
            tagged: Mutex::new(Vec::new()),
        }))
    }
    pub fn journaled() -> Self {
        let d = Self::new();
        d.0.journaling.store(true, Ordering::SeqCst);
        d
    }
    pub fn snapshot(&self) -> Files {
        self.0.files.lock().unwrap().clone()
    }
    pub fn set_files(&self, files: Files) {
        *self.0.files.lock().unwrap() = files;
    }
    pub fn journal_len(&self) -> usize {
        self.0.journal.lock().unwrap().len()
    }
    pub fn journal(&self) -> Vec<JOp> {
        self.0.journal.lock().unwrap().clone()
    }
    pub fn ops(&self) -> u64 {
        self.0.opcount.load(Ordering::SeqCst)
    }
    pub fn muts(&self) -> u64 {
        self.0.mutcount.load(Ordering::SeqCst)
    }
    pub fn set_fault(&self, k: i64) {
        self.0.fault_at.store(k, Ordering::SeqCst);
        self.0.fault_hit.store(false, Ordering::SeqCst);
    }
    pub fn fault_hit(&self) -> bool {
        self.0.fault_hit.load(Ordering::SeqCst)
    }
    pub fn file_len(&self, s: usize) -> usize {
        self.0.files.lock().unwrap()[s].len()
    }

    /// A `Storage` over these files (no overwrite).
    pub fn storage(&self) -> Result<Storage, hypercore::HypercoreError> {
        let ctl = self.0.clone();
        let fut = Storage::open(
            move |store: Store| {
                let ctl = ctl.clone();
                Box::pin(async move {
                    Ok(Box::new(Ra { ctl, s: store_idx(&store) }) as Box<dyn StorageTraits + Send>)
                })
            },
            false,
        );
        crate::exec::block_on(fut)
    }

    /// A `Storage` over these files opened with `overwrite = true` (wipes what is there).
    pub async fn storage_overwrite_async(&self) -> Result<Storage, hypercore::HypercoreError> {
        let ctl = self.0.clone();
        Storage::open(
            move |store: Store| {
                let ctl = ctl.clone();
                Box::pin(async move {
                    Ok(Box::new(Ra { ctl, s: store_idx(&store) }) as Box<dyn StorageTraits + Send>)
                })
            },
            true,
        )
        .await
    }

    /// Async variant for use inside the C15 scheduler.
    pub async fn storage_async(&self) -> Result<Storage, hypercore::HypercoreError> {
        let ctl = self.0.clone();
        Storage::open(
            move |store: Store| {
                let ctl = ctl.clone();
                Box::pin(async move {
                    Ok(Box::new(Ra { ctl, s: store_idx(&store) }) as Box<dyn StorageTraits + Send>)
                })
            },
            false,
        )
        .await
    }
}

#[derive(Debug)]
pub struct Ra {
    ctl: Arc<Ctl>,
    s: usize,
}

struct YieldOnce(bool);
impl Future for YieldOnce {
    type Output = ();
    fn poll(mut self: Pin<&mut Self>, cx: &mut Context<'_>) -> Poll<()> {
        if self.0 {
            Poll::Ready(())
        } else {
            self.0 = true;
            cx.waker().wake_by_ref();
            Poll::Pending
        }
    }
}

fn io_err(what: &str) -> RandomAccessError {
    RandomAccessError::IO {
        return_code: Some(5),
        context: Some(format!("injected fault on {what}")),
        source: std::io::Error::new(std::io::ErrorKind::Other, "injected I/O fault"),
    }
}

impl Ra {
    /// Common prologue: suspend once in yielding mode, count, inject fault.
    async fn pre(&self, kind: &'static str, mutating: bool) -> Result<(), RandomAccessError> {
        if self.ctl.yielding.load(Ordering::SeqCst) {
            YieldOnce(false).await;
            self.ctl.tagged.lock().unwrap().push(Tagged {
                task: self.ctl.cur_task.load(Ordering::SeqCst),
                store: self.s,
                kind,
                mutating,
            });
        }
        let k = self.ctl.opcount.fetch_add(1, Ordering::SeqCst);
        if mutating {
            self.ctl.mutcount.fetch_add(1, Ordering::SeqCst);
        }
        let fa = self.ctl.fault_at.load(Ordering::SeqCst);
        if fa >= 0 && k as i64 == fa {
            self.ctl.fault_hit.store(true, Ordering::SeqCst);
            *self.ctl.fault_kind.lock().unwrap() = Some(format!("{} {}", kind, STORE_NAMES[self.s]));
            return Err(io_err(kind));
        }
        Ok(())
    }
    fn log(&self, op: JOp) {
        if self.ctl.journaling.load(Ordering::SeqCst) {
            self.ctl.journal.lock().unwrap().push(op);
        }
    }
}

#[async_trait]
impl RandomAccess for Ra {
    async fn write(&mut self, offset: u64, data: &[u8]) -> Result<(), RandomAccessError> {
        self.pre("write", true).await?;
        self.log(JOp::Write { s: self.s, off: offset, data: data.to_vec() });
        let mut files = self.ctl.files.lock().unwrap();
        f_write(&mut files[self.s], offset, data);
        Ok(())
    }

    async fn read(&mut self, offset: u64, length: u64) -> Result<Vec<u8>, RandomAccessError> {
        self.pre("read", false).await?;
        let files = self.ctl.files.lock().unwrap();
        let f = &files[self.s];
        let end = offset.checked_add(length);
        match end {
            Some(end) if end <= f.len() as u64 => Ok(f[offset as usize..end as usize].to_vec()),
            _ => Err(RandomAccessError::OutOfBounds {
                offset,
                end: end.or(Some(u64::MAX)),
                length: f.len() as u64,
            }),
        }
    }

    async fn del(&mut self, offset: u64, length: u64) -> Result<(), RandomAccessError> {
        self.pre("del", true).await?;
        let mut files = self.ctl.files.lock().unwrap();
        let flen = files[self.s].len() as u64;
        if offset > flen {
            return Err(RandomAccessError::OutOfBounds { offset, end: None, length: flen });
        }
        drop(files);
        self.log(JOp::Del { s: self.s, off: offset, len: length });
        files = self.ctl.files.lock().unwrap();
        let _ = f_del(&mut files[self.s], offset, length);
        Ok(())
    }

    async fn truncate(&mut self, length: u64) -> Result<(), RandomAccessError> {
        self.pre("truncate", true).await?;
        self.log(JOp::Truncate { s: self.s, len: length });
        let mut files = self.ctl.files.lock().unwrap();
        f_truncate(&mut files[self.s], length);
        Ok(())
    }

    async fn len(&mut self) -> Result<u64, RandomAccessError> {
        self.pre("len", false).await?;
        Ok(self.ctl.files.lock().unwrap()[self.s].len() as u64)
    }

    async fn is_empty(&mut self) -> Result<bool, RandomAccessError> {
        self.pre("is_empty", false).await?;
        Ok(self.ctl.files.lock().unwrap()[self.s].is_empty())
    }

    async fn sync_all(&mut self) -> Result<(), RandomAccessError> {
        Ok(())
    }
}
