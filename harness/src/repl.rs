//! Writer/replica replication sessions (C03, C04, C08, C09, C13 and replica-side parts of
//! C02/C06/C07/C12).

use crate::backend::Disk;
use crate::exec::{block_on, catch};
use crate::hc::{self, brief_get, err_class};
use crate::model::{sel, Blk, ReplicaModel};
use crate::ops::*;
use crate::reftree as ft;
use crate::runner::{Check, Failure, Local};
use hypercore::{Hypercore, HypercoreError, Proof, RequestBlock, RequestSeek, RequestUpgrade};
use proptest::prelude::*;
use serde::{Deserialize, Serialize};

#[derive(Clone, Debug, PartialEq, Eq, Hash, Serialize, Deserialize)]
pub enum Target {
    None,
    /// selector onto the blocks covered by the request
    Block(u16),
    /// selector onto the tree nodes fully inside the covered range
    Hash(u16),
    /// concrete block index (exhaustive stages)
    BlockAt(u64),
    /// concrete tree index (exhaustive stages)
    HashAt(u64),
}

#[derive(Clone, Debug, PartialEq, Eq, Hash, Serialize, Deserialize)]
pub enum Upg {
    /// no upgrade even when behind (block/hash must then lie inside the replica's length)
    None,
    /// upgrade to the writer's full length when behind
    Full,
    /// upgrade by sel(x, behind)+1 blocks when behind
    Partial(u16),
    /// concrete upgrade length (exhaustive stages); clamped to 1..=behind
    Len(u64),
}

#[derive(Clone, Debug, PartialEq, Eq, Hash, Serialize, Deserialize)]
pub enum Seek {
    None,
    /// selector onto 0..=byte length covered
    Sel(u16),
    At(u64),
}

#[derive(Clone, Debug, PartialEq, Eq, Hash, Serialize, Deserialize)]
pub struct Req {
    pub target: Target,
    pub upgrade: Upg,
    pub seek: Seek,
}

#[derive(Clone, Debug, PartialEq, Eq, Hash, Serialize, Deserialize)]
pub enum SOp {
    /// writer-side operation
    W(Op),
    /// replica request answered by the writer and applied by the replica
    R(Req),
    /// drop and reopen the replica
    RReopen,
    /// fetch every block the writer holds (the loop of examples/replication.rs)
    Sync,
    /// replica-side clear(i, i+1) of a held block whose neighbours are held or log ends (C08)
    RClear(u16),
    /// replica-side clear(start, end) of an arbitrary range, start = sel(a, length),
    /// end = start + 1 + sel(b, length + 2 - start). The call may legitimately fail (the replica can
    /// lack the tree nodes for the byte range of blocks it never fetched); C08 only requires that
    /// has()/contiguous_length stay exact.
    RClearRange(u16, u16),
    /// replica-side clear(start, end) with explicit bounds (clamped to start < end <= length + 2)
    RClearAt(u64, u64),
}

// ------------------------------------------------------------------ generators

pub fn req_strategy() -> impl Strategy<Value = Req> {
    let target = prop_oneof![
        2 => Just(Target::None),
        8 => any::<u16>().prop_map(Target::Block),
        3 => any::<u16>().prop_map(Target::Hash),
    ];
    let upg = prop_oneof![
        2 => Just(Upg::None),
        5 => Just(Upg::Full),
        4 => any::<u16>().prop_map(Upg::Partial),
    ];
    let seek = prop_oneof![
        6 => Just(Seek::None),
        2 => any::<u16>().prop_map(Seek::Sel),
    ];
    (target, upg, seek).prop_map(|(target, upgrade, seek)| Req { target, upgrade, seek })
}

pub fn wblk_strategy() -> impl Strategy<Value = Blk> {
    let len = prop_oneof![2 => Just(0u32), 2 => Just(1u32), 8 => 2u32..=40, 2 => 41u32..=300];
    (len, any::<u8>()).prop_map(|(len, fill)| Blk { len, fill })
}

pub fn sop_strategy() -> impl Strategy<Value = SOp> {
    prop_oneof![
        4 => wblk_strategy().prop_map(|b| SOp::W(Op::Append(b))),
        3 => prop::collection::vec(wblk_strategy(), 1..9).prop_map(|b| SOp::W(Op::Batch(b))),
        1 => prop::collection::vec(wblk_strategy(), 9..40).prop_map(|b| SOp::W(Op::Batch(b))),
        2 => clear_strategy().prop_map(SOp::W),
        1 => Just(SOp::W(Op::Reopen)),
        14 => req_strategy().prop_map(SOp::R),
        3 => Just(SOp::RReopen),
        1 => Just(SOp::Sync),
    ]
}

pub fn session_strategy(max: usize) -> impl Strategy<Value = Vec<SOp>> {
    prop::collection::vec(sop_strategy(), 3..max)
}

// ------------------------------------------------------------------ simulator

/// Outcome class of one request round trip (for evidence and for vacuity control).
#[derive(Clone, Debug, PartialEq, Eq)]
pub enum ReqOutcome {
    Skipped(&'static str),
    WriterRefused(String),
    NoProof,
    Accepted,
    /// an injected storage fault made the replica-side call return an error (C10)
    Faulted(String),
}

pub struct RSim {
    pub wdisk: Disk,
    pub rdisk: Disk,
    pub w: WSim<Disk>,
    /// every block ever appended by the writer
    pub wblocks: Vec<Vec<u8>>,
    /// (length, byte_length) pairs the writer has had
    pub whistory: Vec<(u64, u64)>,
    pub r: Option<Hypercore>,
    pub rm: ReplicaModel,
    pub step: usize,
    pub check_contig: bool,
    // classification
    pub accepted: u32,
    pub block_under_nonfirst_root: bool,
    pub block_with_upgrade_from_nonempty: bool,
    pub applied_after_reopen_with_unflushed: bool,
    pub r_unflushed: u32,
    pub r_reopened_with_unflushed: bool,
    pub pages_held: std::collections::BTreeSet<u64>,
    r_jpos: usize,
    /// skip the model comparisons after replica calls (fault runs must issue the same
    /// storage operations as their dry run)
    pub quiet: bool,
    /// last proof created (for C04/C13 users)
    pub last_proof: Option<Proof>,
}

pub fn fail_at(step: usize, kind: impl Into<String>, detail: impl std::fmt::Display) -> Failure {
    Failure::new(kind, format!("session step {step}: {detail}"))
}

/// A concrete request, resolved against the current replica/writer state.
#[derive(Clone, Debug, PartialEq)]
pub struct ConcreteReq {
    pub block: Option<RequestBlock>,
    pub hash: Option<RequestBlock>,
    pub seek: Option<RequestSeek>,
    pub upgrade: Option<RequestUpgrade>,
}

impl RSim {
    pub fn new(rdisk: Disk) -> Result<Self, Failure> {
        let wdisk = Disk::new();
        let w = WSim::create(&wdisk, ObsPolicy::Windowed)?;
        let kp = hc::public_only(&hc::test_keypair());
        let r = match hc::create(&rdisk, kp) {
            Ok(Ok(c)) => c,
            Ok(Err(e)) => return Err(Failure::new(format!("create-error:{}", err_kind(&e)), format!("creating the replica failed: {e}"))),
            Err(p) => return Err(panic_failure("create replica", &p)),
        };
        Ok(RSim {
            wdisk,
            rdisk,
            w,
            wblocks: vec![],
            whistory: vec![(0, 0)],
            r: Some(r),
            rm: ReplicaModel::new(),
            step: 0,
            check_contig: false,
            accepted: 0,
            block_under_nonfirst_root: false,
            block_with_upgrade_from_nonempty: false,
            applied_after_reopen_with_unflushed: false,
            r_unflushed: 0,
            r_reopened_with_unflushed: false,
            pages_held: Default::default(),
            r_jpos: 0,
            quiet: false,
            last_proof: None,
        })
    }

    /// Update the count of replica operations persisted only as oplog entries, from the
    /// replica disk's journal (exact when the disk is journaled).
    pub fn r_journal_tick(&mut self) {
        if !self.rdisk.0.journaling.load(std::sync::atomic::Ordering::SeqCst) {
            self.r_unflushed += 1;
            return;
        }
        let j = self.rdisk.0.journal.lock().unwrap();
        let new = &j[self.r_jpos.min(j.len())..];
        if new.iter().any(crate::crash::is_header_write) {
            self.r_unflushed = 0;
        } else if !new.is_empty() {
            self.r_unflushed += 1;
        }
        self.r_jpos = j.len();
    }

    pub fn replica(&mut self) -> &mut Hypercore {
        self.r.as_mut().expect("replica present")
    }

    pub fn wlen(&self) -> u64 {
        self.w.model.len()
    }

    fn sync_wblocks(&mut self) {
        // after a writer op: record newly appended blocks
        while (self.wblocks.len() as u64) < self.w.model.len() {
            let i = self.wblocks.len();
            self.wblocks.push(self.w.model.blocks[i].clone().expect("freshly appended block present"));
        }
        let cur = (self.w.model.len(), self.w.model.byte_length);
        if *self.whistory.last().unwrap() != cur {
            self.whistory.push(cur);
        }
    }

    pub fn writer_op(&mut self, op: &Op) -> Check {
        self.w.apply(op).map_err(|f| Failure::new(format!("writer:{}", f.kind), format!("session step {}: writer: {}", self.step, f.detail)))?;
        self.sync_wblocks();
        Ok(())
    }

    /// Byte length of the first `len` blocks of the writer.
    pub fn wbytes_upto(&self, len: u64) -> u64 {
        self.wblocks[..len as usize].iter().map(|b| b.len() as u64).sum()
    }

    /// Tree nodes whose whole span lies inside the first `covered` blocks.
    pub fn hash_candidates(covered: u64) -> Vec<u64> {
        ft::RefTree::full_indices(covered)
    }

    /// Resolve an abstract request. None = not applicable in this state (skipped).
    pub fn resolve(&mut self, req: &Req) -> Result<Result<ConcreteReq, &'static str>, Failure> {
        let step = self.step;
        let rl = self.rm.length;
        let wl = self.wlen();
        let behind = wl.saturating_sub(rl);
        let upgrade = if behind == 0 {
            None
        } else {
            match &req.upgrade {
                Upg::None => None,
                Upg::Full => Some(RequestUpgrade { start: rl, length: behind }),
                Upg::Partial(x) => Some(RequestUpgrade { start: rl, length: sel(*x, behind) + 1 }),
                Upg::Len(l) => Some(RequestUpgrade { start: rl, length: (*l).clamp(1, behind) }),
            }
        };
        let covered = rl + upgrade.as_ref().map(|u| u.length).unwrap_or(0);
        let mut block = None;
        let mut hash = None;
        match &req.target {
            Target::None => {}
            Target::Block(_) | Target::BlockAt(_) => {
                if covered == 0 {
                    return Ok(Err("no block in covered range"));
                }
                let i = match &req.target {
                    Target::Block(x) => sel(*x, covered),
                    Target::BlockAt(i) => {
                        if *i >= covered {
                            return Ok(Err("block index beyond covered range"));
                        }
                        *i
                    }
                    _ => unreachable!(),
                };
                let r = self.replica();
                let nodes = match catch(|| block_on(r.missing_nodes(i))) {
                    Ok(Ok(n)) => n,
                    Ok(Err(_)) if self.rdisk.fault_hit() => return Ok(Err("storage fault")),
                    Ok(Err(e)) => return Err(fail_at(step, format!("missing-nodes-error:{}", err_kind(&e)), format!("replica.missing_nodes({i}) failed: {e}"))),
                    Err(p) => return Err(panic_failure(&format!("session step {step}: replica.missing_nodes({i})"), &p)),
                };
                block = Some(RequestBlock { index: i, nodes });
            }
            Target::Hash(_) | Target::HashAt(_) => {
                let cands = Self::hash_candidates(covered);
                if cands.is_empty() {
                    return Ok(Err("no tree node in covered range"));
                }
                let j = match &req.target {
                    Target::Hash(x) => cands[sel(*x, cands.len() as u64) as usize],
                    Target::HashAt(j) => {
                        if !cands.contains(j) {
                            return Ok(Err("tree index not fully inside covered range"));
                        }
                        *j
                    }
                    _ => unreachable!(),
                };
                let r = self.replica();
                let nodes = match catch(|| block_on(r.missing_nodes_from_merkle_tree_index(j))) {
                    Ok(Ok(n)) => n,
                    Ok(Err(_)) if self.rdisk.fault_hit() => return Ok(Err("storage fault")),
                    Ok(Err(e)) => {
                        return Err(fail_at(step, format!("missing-nodes-error:{}", err_kind(&e)), format!("replica.missing_nodes_from_merkle_tree_index({j}) failed: {e}")))
                    }
                    Err(p) => return Err(panic_failure(&format!("session step {step}: replica.missing_nodes_from_merkle_tree_index({j})"), &p)),
                };
                hash = Some(RequestBlock { index: j, nodes });
            }
        }
        // a request with an upgrade always brings the replica to the writer's full length (partial
        // upgrades are completed by additional nodes), so any byte of the writer's log is in range
        // for its seek; without an upgrade the seek must stay inside what the replica's tree covers
        let seek_range = if upgrade.is_some() { self.wbytes_upto(self.wlen()) } else { self.wbytes_upto(covered) };
        let seek = match &req.seek {
            Seek::None => None,
            Seek::Sel(x) => {
                let total = seek_range;
                Some(RequestSeek { bytes: sel(*x, total + 1) })
            }
            Seek::At(b) => {
                let total = seek_range;
                if *b > total {
                    return Ok(Err("seek beyond covered bytes"));
                }
                Some(RequestSeek { bytes: *b })
            }
        };
        if block.is_none() && hash.is_none() && seek.is_none() && upgrade.is_none() {
            return Ok(Err("empty request"));
        }
        Ok(Ok(ConcreteReq { block, hash, seek, upgrade }))
    }

    /// Ask the writer for a proof.
    pub fn writer_proof(&mut self, c: &ConcreteReq) -> Result<Result<Option<Proof>, HypercoreError>, Failure> {
        let step = self.step;
        let w = self.w.core();
        let (b, h, s, u) = (c.block.clone(), c.hash.clone(), c.seek.clone(), c.upgrade.clone());
        catch(|| block_on(w.create_proof(b, h, s, u)))
            .map_err(|p| panic_failure(&format!("session step {step}: writer.create_proof({c:?})"), &p))
    }

    /// One honest request round trip with the C03 oracle.
    pub fn request(&mut self, req: &Req, local: &mut Local) -> Result<ReqOutcome, Failure> {
        let step = self.step;
        let c = match self.resolve(req)? {
            Ok(c) => c,
            Err("storage fault") => return Ok(ReqOutcome::Faulted("missing_nodes".into())),
            Err(why) => {
                local.class(&format!("request_skipped:{why}"));
                return Ok(ReqOutcome::Skipped(why));
            }
        };
        let shape = format!(
            "{}{}{}{}",
            if c.block.is_some() { "B" } else { "-" },
            if c.hash.is_some() { "H" } else { "-" },
            if c.seek.is_some() { "S" } else { "-" },
            if c.upgrade.is_some() { "U" } else { "-" }
        );
        let wl = self.wlen();
        let wbytes = self.w.model.byte_length;
        let proof = match self.writer_proof(&c)? {
            Err(e) => {
                local.class(&format!("shape_{shape}:writer_refused"));
                local.class(&format!("writer_refused:{}", hc::squash_digits(&e.to_string()).chars().take(60).collect::<String>()));
                return Ok(ReqOutcome::WriterRefused(err_kind(&e)));
            }
            Ok(None) => {
                // legitimate only for a block the writer no longer holds
                if let Some(b) = &c.block {
                    if !self.w.model.has(b.index) {
                        local.class("no_proof_for_cleared_block");
                        return Ok(ReqOutcome::NoProof);
                    }
                }
                return Err(fail_at(step, "no-proof-for-held-block", format!("writer returned Ok(None) for {c:?} although it holds the block")));
            }
            Ok(Some(p)) => p,
        };
        if let Some(b) = &c.block {
            if !self.w.model.has(b.index) {
                return Err(fail_at(step, "proof-for-cleared-block", format!("writer produced a proof with a value for cleared block {}", b.index)));
            }
        }
        local.class(&format!("shape_{shape}:proof_created"));
        // classification (before applying)
        let rl = self.rm.length;
        if let Some(b) = &c.block {
            let covered_after = if proof.upgrade.is_some() { wl } else { rl };
            let roots = ft::full_roots(covered_after);
            if let Some(first) = roots.first() {
                if 2 * b.index > ft::right_span(*first) {
                    self.block_under_nonfirst_root = true;
                }
            }
            if proof.upgrade.is_some() && rl > 0 {
                self.block_with_upgrade_from_nonempty = true;
            }
        }
        if self.r_reopened_with_unflushed {
            self.applied_after_reopen_with_unflushed = true;
        }
        let r = self.replica();
        let res = catch(|| block_on(r.verify_and_apply_proof(&proof)))
            .map_err(|p| panic_failure(&format!("session step {step}: replica.verify_and_apply_proof (request {c:?})"), &p))?;
        if self.rdisk.fault_hit() {
            return match res {
                Err(_) => Ok(ReqOutcome::Faulted("verify_and_apply_proof".into())),
                Ok(v) => Err(fail_at(step, "fault-swallowed:verify_and_apply_proof", format!("a storage operation failed during verify_and_apply_proof but it returned Ok({v})"))),
            };
        }
        match res {
            Ok(true) => {}
            Ok(false) => {
                return Err(fail_at(step, "honest-proof-refused:false", format!("replica returned Ok(false) for the honest proof of {c:?} (replica length {rl}, writer length {wl})")))
            }
            Err(e) => {
                return Err(fail_at(
                    step,
                    format!("honest-proof-refused:{}", err_kind(&e)),
                    format!("replica refused the honest proof of {c:?} (replica length {rl}, writer length {wl}): {e}"),
                ))
            }
        }
        local.class(&format!("shape_{shape}:accepted"));
        self.accepted += 1;
        self.r_journal_tick();
        // advance the replica model
        if proof.upgrade.is_some() {
            self.rm.length = wl;
            self.rm.byte_length = wbytes;
        }
        if let Some(b) = &c.block {
            self.rm.held.insert(b.index);
            self.pages_held.insert(b.index / 32768);
        }
        self.last_proof = Some(proof);
        // windowed observation
        let touched = c.block.as_ref().map(|b| b.index);
        if !self.quiet {
            self.check_replica(touched, "after-proof")?;
        }
        Ok(ReqOutcome::Accepted)
    }

    /// Compare the replica with its model. `touched`: windowed check around this index;
    /// None = full check.
    pub fn check_replica(&mut self, touched: Option<u64>, tag: &str) -> Check {
        let step = self.step;
        let rm = self.rm.clone();
        let check_contig = self.check_contig;
        let wblocks = &self.wblocks;
        let r = self.r.as_mut().expect("replica");
        let len = rm.length;
        let idx: Vec<u64> = match touched {
            Some(t) if len > 24 => {
                let mut v: Vec<u64> = (t.saturating_sub(2)..(t + 3).min(len + 3)).collect();
                v.extend([0, len.saturating_sub(1), len, len + 1]);
                v.extend(rm.held.iter().take(6));
                v.extend(rm.held.iter().rev().take(6));
                v.sort();
                v.dedup();
                v
            }
            _ => {
                if len <= 3000 {
                    (0..len + 3).collect()
                } else {
                    // big replica: all held + boundaries
                    let mut v: Vec<u64> = rm.held.iter().copied().collect();
                    for b in [0u64, 8191, 8192, 32767, 32768, 65535, 65536] {
                        if b < len + 3 {
                            v.push(b);
                        }
                    }
                    v.extend([len.saturating_sub(1), len, len + 1, len + 2]);
                    v.sort();
                    v.dedup();
                    v
                }
            }
        };
        let res = catch(|| -> Check {
            let info = r.info();
            if info.length != rm.length || info.byte_length != rm.byte_length {
                return Err(fail_at(
                    step,
                    format!("replica-info-mismatch:{tag}"),
                    format!("replica reports ({},{}) but the writer had ({},{}) when it last upgraded", info.length, info.byte_length, rm.length, rm.byte_length),
                ));
            }
            if info.writeable {
                return Err(fail_at(step, "replica-writeable", "replica reports writeable"));
            }
            if info.fork != 0 {
                return Err(fail_at(step, "replica-fork", format!("fork {}", info.fork)));
            }
            if check_contig && info.contiguous_length != rm.contiguous() {
                return Err(fail_at(
                    step,
                    format!("replica-contiguous-mismatch:{tag}"),
                    format!("replica contiguous_length {} but model {}", info.contiguous_length, rm.contiguous()),
                ));
            }
            if check_contig && touched.is_none() {
                // C08: has() on every index below the length and probes in the following pages
                for i in 0..len {
                    let h = r.has(i);
                    if h != rm.held.contains(&i) {
                        return Err(fail_at(step, format!("replica-has-mismatch:{tag}"), format!("replica has({i}) = {h} but model {} (replica length {len})", !h)));
                    }
                }
                let last_page = len / 32768;
                for p in last_page..last_page + 5 {
                    for off in [0u64, 1, 8191, 8192, 8193, 32767] {
                        let i = p * 32768 + off;
                        if i >= len && r.has(i) {
                            return Err(fail_at(step, format!("replica-has-beyond-length:{tag}"), format!("replica has({i}) is true but its length is {len}")));
                        }
                    }
                }
            }
            for i in idx {
                let held = rm.held.contains(&i);
                let h = r.has(i);
                if h != held {
                    return Err(fail_at(step, format!("replica-has-mismatch:{tag}"), format!("replica has({i}) = {h} but model {held} (replica length {len})")));
                }
                match block_on(r.get(i)) {
                    Ok(v) => {
                        let exp = if held { Some(wblocks[i as usize].clone()) } else { None };
                        if v != exp {
                            return Err(fail_at(
                                step,
                                format!("replica-get-mismatch:{tag}"),
                                format!("replica get({i}) = {} but the writer's block is {}", brief_get(&Ok(v)), brief_get(&Ok(exp))),
                            ));
                        }
                    }
                    Err(e) => {
                        return Err(fail_at(step, format!("replica-get-error:{tag}:{}", err_kind(&e)), format!("replica get({i}) failed: {e} (held: {held})")));
                    }
                }
            }
            Ok(())
        });
        match res {
            Ok(c) => c,
            Err(p) => Err(panic_failure(&format!("session step {step}: observing the replica ({tag})"), &p)),
        }
    }

    pub fn replica_reopen(&mut self) -> Check {
        let step = self.step;
        if self.r_unflushed > 0 {
            // whether entries are really unflushed is decided by the flush cadence; the
            // precise classification uses the journal in callers that have one
        }
        self.r = None;
        match hc::open(&self.rdisk) {
            Ok(Ok(c)) => self.r = Some(c),
            Ok(Err(_)) if self.rdisk.fault_hit() => return Ok(()),
            Ok(Err(e)) => return Err(fail_at(step, format!("replica-reopen-error:{}", err_kind(&e)), format!("reopening the replica failed: {e}"))),
            Err(p) => return Err(panic_failure(&format!("session step {step}: reopening the replica"), &p)),
        }
        if self.rdisk.fault_hit() {
            return Err(fail_at(step, "fault-swallowed:open", "a storage operation failed while reopening the replica but open returned Ok"));
        }
        if self.quiet {
            return Ok(());
        }
        self.check_replica(None, "after-reopen")
    }

    /// The standard replication loop: fetch every block the writer holds.
    pub fn sync_all(&mut self, local: &mut Local) -> Check {
        let step = self.step;
        let wl = self.wlen();
        // upgrade first if behind and nothing to fetch would carry it
        let todo: Vec<u64> = (0..wl).filter(|i| self.w.model.has(*i) && !self.rm.held.contains(i)).collect();
        if todo.is_empty() && self.rm.length < wl {
            let req = Req { target: Target::None, upgrade: Upg::Full, seek: Seek::None };
            match self.request(&req, local)? {
                ReqOutcome::Accepted => {}
                o => return Err(fail_at(step, "convergence-upgrade-failed", format!("upgrade-only request in the convergence loop ended as {o:?}"))),
            }
        }
        for i in todo {
            let req = Req { target: Target::BlockAt(i), upgrade: Upg::Full, seek: Seek::None };
            match self.request(&req, local)? {
                ReqOutcome::Accepted => {}
                ReqOutcome::WriterRefused(e) => {
                    return Err(fail_at(step, format!("convergence-writer-refused:{e}"), format!("writer refused the standard block request for block {i}")))
                }
                o => return Err(fail_at(step, "convergence-failed", format!("standard block request for block {i} ended as {o:?}"))),
            }
        }
        // converged?
        let wl = self.wlen();
        if self.rm.length != wl {
            return Err(fail_at(step, "convergence-length", format!("after the loop the replica model length {} != writer {}", self.rm.length, wl)));
        }
        self.check_replica(None, "converged")
    }

    /// Replica-side clear of a held block whose neighbours are held or are the log ends.
    pub fn replica_clear(&mut self, x: u16, local: &mut Local) -> Check {
        let step = self.step;
        let len = self.rm.length;
        let cands: Vec<u64> = self
            .rm
            .held
            .iter()
            .copied()
            .filter(|i| (*i == 0 || self.rm.held.contains(&(i - 1))) && (*i + 1 == len || self.rm.held.contains(&(i + 1))))
            .collect();
        if cands.is_empty() {
            local.class("replica_clear_skipped");
            return Ok(());
        }
        let i = cands[sel(x, cands.len() as u64) as usize];
        let r = self.replica();
        match catch(|| block_on(r.clear(i, i + 1))) {
            Ok(Ok(())) => {}
            Ok(Err(_)) if self.rdisk.fault_hit() => return Ok(()),
            Ok(Err(e)) => return Err(fail_at(step, format!("replica-clear-error:{}", err_kind(&e)), format!("replica clear({i},{}) failed: {e}", i + 1))),
            Err(p) => return Err(panic_failure(&format!("session step {step}: replica clear({i})"), &p)),
        }
        if self.rdisk.fault_hit() {
            return Err(fail_at(step, "fault-swallowed:clear", "a storage operation failed during the replica's clear but it returned Ok"));
        }
        self.rm.held.remove(&i);
        self.r_journal_tick();
        local.class("replica_clear");
        if self.quiet {
            return Ok(());
        }
        self.check_replica(Some(i), "after-replica-clear")
    }

    /// Replica-side clear of an arbitrary range. Ok => the range is cleared. Err => accepted,
    /// but the bits must then be either all cleared or all unchanged (decided by observation).
    pub fn replica_clear_range(&mut self, a: u16, b: u16, local: &mut Local) -> Check {
        let len = self.rm.length;
        if len == 0 {
            local.class("replica_clear_range_skipped");
            return Ok(());
        }
        let start = sel(a, len);
        let end = start + 1 + sel(b, len + 2 - start);
        self.replica_clear_at(start, end, local)
    }

    pub fn replica_clear_at(&mut self, start: u64, end: u64, local: &mut Local) -> Check {
        let step = self.step;
        let len = self.rm.length;
        if len == 0 {
            local.class("replica_clear_range_skipped");
            return Ok(());
        }
        let start = start.min(len - 1);
        let end = end.clamp(start + 1, len + 2);
        let missing_page_between = {
            let (ps, pe) = (start / 32768, (end - 1) / 32768);
            ps < pe && start % 32768 != 0 && !self.pages_held.contains(&ps) && self.rm.held.range(pe * 32768..end).next().is_some()
        };
        if missing_page_between {
            local.class("replica_clear_from_inside_an_untouched_page_into_a_held_page");
        }
        let r = self.replica();
        let res = match catch(|| block_on(r.clear(start, end))) {
            Ok(x) => x,
            Err(p) => return Err(panic_failure(&format!("session step {step}: replica clear({start},{end})"), &p)),
        };
        let in_range: Vec<u64> = self.rm.held.range(start..end).copied().collect();
        match res {
            Ok(()) => {
                local.class("replica_clear_range:ok");
                for i in &in_range {
                    self.rm.held.remove(i);
                }
            }
            Err(_) if self.rdisk.fault_hit() => return Ok(()),
            Err(e) => {
                local.class("replica_clear_range:err(accepted)");
                let r = self.replica();
                let still: Vec<bool> = in_range.iter().map(|i| r.has(*i)).collect();
                if still.iter().all(|x| !*x) {
                    for i in &in_range {
                        self.rm.held.remove(i);
                    }
                } else if !still.iter().all(|x| *x) {
                    return Err(fail_at(
                        step,
                        "replica-clear-range-partially-applied",
                        format!("replica clear({start},{end}) failed ({e}) and left the held blocks of the range partly cleared: {:?}", in_range.iter().zip(still.iter()).collect::<Vec<_>>()),
                    ));
                }
            }
        }
        self.r_journal_tick();
        if self.quiet {
            return Ok(());
        }
        self.check_replica(None, "after-replica-clear-range")
    }

    pub fn apply(&mut self, op: &SOp, local: &mut Local) -> Check {
        match op {
            SOp::W(o) => self.writer_op(o)?,
            SOp::R(req) => {
                self.request(req, local)?;
            }
            SOp::RReopen => {
                if self.r_unflushed > 0 {
                    self.r_reopened_with_unflushed = true;
                }
                self.replica_reopen()?
            }
            SOp::Sync => self.sync_all(local)?,
            SOp::RClear(x) => self.replica_clear(*x, local)?,
            SOp::RClearRange(a, b) => self.replica_clear_range(*a, *b, local)?,
            SOp::RClearAt(a, b) => self.replica_clear_at(*a, *b, local)?,
        }
        self.step += 1;
        Ok(())
    }

    /// Run a whole session, ending with the convergence loop.
    pub fn run(&mut self, ops: &[SOp], local: &mut Local) -> Check {
        for op in ops {
            self.apply(op, local)?;
        }
        self.sync_all(local)?;
        self.replica_reopen()
    }

    pub fn nontrivial(&self) -> bool {
        self.block_under_nonfirst_root || self.block_with_upgrade_from_nonempty || self.applied_after_reopen_with_unflushed
    }
}

pub fn err_class_of(e: &HypercoreError) -> String {
    err_class(e)
}
