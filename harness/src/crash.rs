//! Crash-point enumeration over the storage journal (C02, C07, C08, C12).
//!
//! A history is run once on a journaled disk; for every prefix k of the journal the four
//! files are rebuilt, reopened and compared with the before/after model of the call whose
//! journal interval contains k.

use crate::backend::{apply, apply_torn, empty_files, Disk, Files, JOp, OPLOG};
use crate::hc::{self, brief_get, Obs};
use crate::model::{Blk, ListModel};
use crate::ops::*;
use crate::runner::{Check, Failure, Local};

#[derive(Clone, Copy, Debug)]
pub struct CrashCfg {
    /// additionally tear the write at each crash point (C07)
    pub torn: bool,
    /// only torn states (skip clean prefixes)
    pub torn_only: bool,
    /// recurse one level into the usability suffix for every n-th crash point
    pub recurse_every: Option<usize>,
    /// run the usability suffix after recovery
    pub suffix: bool,
    /// compare contiguous length too (C08)
    pub check_contig: bool,
    pub seed: u64,
    /// which usability suffix to run (set per crash point by `enumerate`)
    pub suffix_variant: usize,
}

/// Indices on which two candidate states differ (at most 2000): long logs are observed on a sample
/// only, and these must always be part of it when the two states are to be told apart.
pub fn differing_indices(a: &ListModel, b: &ListModel) -> Vec<u64> {
    let mut differ = vec![];
    for i in 0..a.len().max(b.len()) {
        if a.get(i) != b.get(i) {
            differ.push(i);
            if differ.len() > 2000 {
                break;
            }
        }
    }
    differ
}

/// Compare an observation with a model state; None if equal.
pub fn obs_vs_model(obs: &Obs, m: &ListModel, check_contig: bool) -> Option<String> {
    if obs.length != m.len() {
        return Some(format!("length {} vs model {}", obs.length, m.len()));
    }
    if obs.byte_length != m.byte_length {
        return Some(format!("byte_length {} vs model {}", obs.byte_length, m.byte_length));
    }
    if obs.fork != m.fork {
        return Some(format!("fork {} vs model {}", obs.fork, m.fork));
    }
    if obs.writeable != m.writeable {
        return Some(format!("writeable {} vs model {}", obs.writeable, m.writeable));
    }
    if check_contig && obs.contiguous != m.contiguous() {
        return Some(format!("contiguous_length {} vs model {}", obs.contiguous, m.contiguous()));
    }
    for (i, has, get) in &obs.blocks {
        if *has != m.has(*i) {
            return Some(format!("has({i}) {} vs model {}", has, m.has(*i)));
        }
        let exp: Result<Option<Vec<u8>>, String> = Ok(m.get(*i).cloned());
        if *get != exp {
            return Some(format!("get({i}) {} vs model {}", brief_get(get), brief_get(&exp)));
        }
    }
    None
}

/// One API call of the recorded history.
#[derive(Clone, Debug)]
pub struct CallRec {
    pub op: Op,
    /// journal interval [b, e)
    pub b: usize,
    pub e: usize,
    pub before: usize, // index into models
    pub after: usize,
    /// number of earlier mutating calls persisted only as log entries when this call started
    pub unflushed_before: u32,
    /// this is the first mutating call after a reopen that found unflushed entries
    pub first_after_reopen_with_entries: bool,
}

pub struct Recorded {
    pub journal: Vec<JOp>,
    pub k0: usize,
    pub calls: Vec<CallRec>,
    pub models: Vec<ListModel>,
}

pub fn is_header_write(op: &JOp) -> bool {
    matches!(op, JOp::Write { s, off, .. } if *s == OPLOG && (*off == 0 || *off == 4096))
}

/// Run the history fault-free on a journaled disk, checking it against the model (so a
/// C01 failure is reported as such) and recording call intervals.
pub fn record(ops: &[Op]) -> Result<Recorded, Failure> {
    let disk = Disk::journaled();
    let mut sim = WSim::create(&disk, ObsPolicy::Windowed)?;
    let k0 = disk.journal_len();
    let mut calls = vec![];
    let mut models = vec![sim.model.clone()];
    let mut unflushed = 0u32;
    let mut reopened_with_entries = false;
    for op in ops {
        let b = disk.journal_len();
        if matches!(op, Op::Reopen) && unflushed > 0 {
            reopened_with_entries = true;
        }
        sim.apply(op)?;
        let e = disk.journal_len();
        let before = models.len() - 1;
        if sim.model != models[before] {
            models.push(sim.model.clone());
        }
        let after = models.len() - 1;
        let first_after = reopened_with_entries && e > b;
        calls.push(CallRec { op: op.clone(), b, e, before, after, unflushed_before: unflushed, first_after_reopen_with_entries: first_after });
        if e > b {
            if first_after {
                reopened_with_entries = false;
            }
            let j = disk.0.journal.lock().unwrap();
            if j[b..e].iter().any(is_header_write) {
                unflushed = 0;
            } else {
                unflushed += 1;
            }
        }
    }
    Ok(Recorded { journal: disk.journal(), k0, calls, models })
}

/// Cuts to try for a torn write of n bytes.
pub fn torn_cuts(n: usize, rng: &mut impl FnMut() -> u64) -> Vec<usize> {
    if n <= 1 {
        return vec![];
    }
    if n <= 64 {
        return (1..n).collect();
    }
    let mut v: Vec<usize> = (1..=16).collect();
    v.extend([n - 2, n - 1]);
    let mut m = 512;
    while m < n {
        v.push(m);
        m += 512;
    }
    // framing boundaries of an oplog record: leader (4, 8) are in 1..=16 already;
    // the 40-byte tree node and 32/64-byte key/signature fields:
    v.extend([32usize, 40, 41, 64, 72, 96, 104].iter().filter(|c| **c < n));
    for _ in 0..4 {
        v.push(1 + (rng() as usize % (n - 1)));
    }
    v.sort();
    v.dedup();
    v
}

/// The fixed usability suffix, role: writer.
/// Variants of the usability suffix. The standard one starts with an append (which rewrites the
/// bitfield page it touches and so can heal a page that recovery left stale); the others flush
/// without touching existing pages first.
pub fn writer_suffix_variant(v: usize) -> Vec<Op> {
    match v % 3 {
        0 => writer_suffix(),
        1 => vec![Op::MakeReadOnly, Op::Reopen, Op::Append(Blk { len: 2, fill: 0x54 }), Op::Clear { a: 0x3000, n: 0 }, Op::Reopen],
        _ => vec![Op::Reopen, Op::Clear { a: 0xffff, n: 0 }, Op::Clear { a: 0xffff, n: 0 }, Op::Reopen, Op::Append(Blk { len: 1, fill: 0x55 }), Op::Reopen],
    }
}

pub fn writer_suffix() -> Vec<Op> {
    vec![
        Op::Append(Blk { len: 3, fill: 0x51 }),
        Op::Append(Blk { len: 0, fill: 0 }),
        Op::Clear { a: 0x7000, n: 0 },
        Op::Reopen,
        Op::Batch(vec![Blk { len: 2, fill: 0x52 }, Blk { len: 1, fill: 0x53 }]),
        Op::Clear { a: 0xffff, n: 1 },
        Op::Reopen,
    ]
}

pub struct CrashStats {
    pub recoveries: u64,
}

/// Recover from `files`, check against the candidate models, run the suffix.
/// Returns the index (into `cands`) of the matched model.
#[allow(clippy::too_many_arguments)]
fn recover_and_check(
    files: &Files,
    cands: &[&ListModel],
    cfg: &CrashCfg,
    ctxt: &str,
    depth: u32,
    local: &mut Local,
    stats: &mut CrashStats,
) -> Result<usize, Failure> {
    let disk = if cfg.recurse_every.is_some() && depth == 0 { Disk::journaled() } else { Disk::new() };
    disk.set_files(files.clone());
    stats.recoveries += 1;
    local.evals += 1;
    // every other group of three crash points reopens the way an application that always passes its key
    // pair does: HypercoreBuilder::new(storage).key_pair(kp).build() (no open mode) instead of open(true)
    let with_key_pair = depth == 0 && (cfg.suffix_variant / 3) % 2 == 1;
    if with_key_pair {
        local.class("recoveries_opened_by_building_with_the_key_pair");
    }
    let opened = if with_key_pair { hc::create(&disk, hc::test_keypair()) } else { hc::open(&disk) };
    let mut core = match opened {
        Ok(Ok(c)) => c,
        Ok(Err(e)) => {
            return Err(Failure::new(
                format!("recovery-open-error:{}", err_kind(&e)),
                format!("{ctxt}: reopening after the crash failed: {e}"),
            ))
        }
        Err(p) => return Err(panic_failure(&format!("{ctxt}: reopening after the crash"), &p)),
    };
    let upto = cands.iter().map(|m| m.len()).max().unwrap_or(0) + 3;
    // indices on which the candidate states differ are always observed (long logs are otherwise sampled)
    let mut differ: Vec<u64> = vec![];
    if cands.len() > 1 && upto > 400 {
        let (a, b) = (cands[0], cands[1]);
        for i in 0..a.len().max(b.len()) {
            if a.get(i) != b.get(i) {
                differ.push(i);
                if differ.len() > 2000 {
                    break;
                }
            }
        }
    }
    let obs = hc::observe_with(&mut core, upto, false, &differ).map_err(|p| panic_failure(&format!("{ctxt}: observing the recovered core"), &p))?;
    let mut matched = None;
    let mut diffs = vec![];
    for (i, m) in cands.iter().enumerate() {
        match obs_vs_model(&obs, m, cfg.check_contig) {
            None => {
                matched = Some(i);
                break;
            }
            Some(d) => diffs.push(d),
        }
    }
    let Some(mi) = matched else {
        let kind = if cands.len() == 1 { "recovery-lost-acknowledged-state" } else { "recovery-neither-before-nor-after" };
        return Err(Failure::new(
            kind,
            format!("{ctxt}: recovered state matches none of the {} allowed model state(s): {}", cands.len(), diffs.join(" | ")),
        ));
    };
    if cfg.suffix {
        let mut sim = WSim::attach(&disk, core, cands[mi].clone(), ObsPolicy::Windowed);
        sim.check_contig = cfg.check_contig;
        let suffix = writer_suffix_variant(if depth == 0 { cfg.suffix_variant } else { 0 });
        let k_start = disk.journal_len();
        let mut recs: Vec<(usize, usize, ListModel, ListModel)> = vec![];
        for op in &suffix {
            let b = disk.journal_len();
            let before = sim.model.clone();
            sim.apply(op).map_err(|f| Failure::new(format!("after-recovery:{}", f.kind), format!("{ctxt}: usability suffix: {}", f.detail)))?;
            recs.push((b, disk.journal_len(), before, sim.model.clone()));
        }
        sim.observe_check(true, "suffix-final")
            .map_err(|f| Failure::new(format!("after-recovery:{}", f.kind), format!("{ctxt}: usability suffix: {}", f.detail)))?;
        // one level of recursion: crash inside the suffix
        if depth == 0 && cfg.recurse_every.is_some() {
            let journal = disk.journal();
            // base = the files as they were when the suffix started, i.e. including whatever the
            // recovering open() itself wrote (it may truncate leftovers)
            let mut f2 = files.clone();
            for jop in &journal[..k_start] {
                apply(&mut f2, jop);
            }
            let sub = CrashCfg { recurse_every: None, suffix: true, torn: false, torn_only: false, suffix_variant: 0, ..*cfg };
            for k in k_start..=journal.len() {
                if k > k_start {
                    apply(&mut f2, &journal[k - 1]);
                }
                let cands2: Vec<&ListModel> = match recs.iter().find(|r| r.0 < k && k < r.1) {
                    Some(r) => vec![&r.2, &r.3],
                    None => {
                        // boundary: state after all calls with e <= k
                        let m = recs.iter().filter(|r| r.1 <= k && r.1 > r.0).next_back().map(|r| &r.3).unwrap_or(cands[mi]);
                        vec![m]
                    }
                };
                local.class("second_level_crash_points");
                recover_and_check(&f2, &cands2, &sub, &format!("{ctxt} then second crash at suffix journal prefix {k}"), 1, local, stats)?;
            }
        }
    }
    Ok(mi)
}

/// Enumerate every crash point of a recorded history.
pub fn enumerate(rec: &Recorded, cfg: &CrashCfg, local: &mut Local, stats: &mut CrashStats) -> Check {
    let mut files = empty_files();
    for op in &rec.journal[..rec.k0] {
        apply(&mut files, op);
    }
    let mut rng = crate::runner::small_rng(cfg.seed, rec.journal.len() as u64);
    let n = rec.journal.len();
    let mut point = 0usize;
    let only_k: Option<usize> = std::env::var("HCV_ONLY_K").ok().and_then(|s| s.parse().ok());
    // histories with hundreds of blocks: every recovery costs O(length) observations
    let heavy = n - rec.k0 > 600 || rec.models.iter().map(|m| m.len()).max().unwrap_or(0) > 100;
    for k in rec.k0..=n {
        if k > rec.k0 {
            apply(&mut files, &rec.journal[k - 1]);
        }
        if let Some(ok) = only_k {
            if k != ok {
                continue;
            }
        }
        // a call that issues hundreds of storage operations (flushing a batch of hundreds of blocks
        // writes every tree node separately): all points near its start and end, every 16th in between
        if let Some(c) = rec.calls.iter().find(|c| c.b < k && k < c.e) {
            if c.e - c.b > 96 && k - c.b > 32 && c.e - k > 32 && (k - c.b) % 16 != 0 {
                local.class("crash_points_skipped_inside_calls_with_more_than_96_storage_ops");
                continue;
            }
        }
        // which call is in progress?
        let inside = rec.calls.iter().find(|c| c.b < k && k < c.e);
        let (cands, call): (Vec<&ListModel>, Option<&CallRec>) = match inside {
            Some(c) => (vec![&rec.models[c.before], &rec.models[c.after]], Some(c)),
            None => {
                // boundary between calls: everything acknowledged stays
                let last = rec.calls.iter().filter(|c| c.e <= k && c.e > c.b).next_back();
                let m = last.map(|c| &rec.models[c.after]).unwrap_or(&rec.models[0]);
                (vec![m], None)
            }
        };
        let next_call = rec.calls.iter().find(|c| c.b <= k && k < c.e);
        let desc = |what: &str| {
            let nc = next_call.map(|c| format!("{:?}", c.op)).unwrap_or_else(|| "end".into());
            let nextop = if k < n { rec.journal[k].brief() } else { "-".into() };
            format!("{what} at journal prefix {k}/{n} (during call {nc}; next storage op: {nextop})")
        };
        if !cfg.torn_only {
            point += 1;
            let mut sub = *cfg;
            if let Some(every) = cfg.recurse_every {
                if point % every != 0 && only_k.is_none() {
                    sub.recurse_every = None;
                }
            }
            if heavy {
                // very long journal (a history with a batch of hundreds of blocks): no nested level,
                // usability suffix at every 4th explored point
                sub.recurse_every = None;
                sub.suffix = cfg.suffix && point % 4 == 0;
            }
            sub.suffix_variant = point;
            local.class("crash_points");
            if let Some(c) = call {
                if c.e - c.b >= 2 && c.unflushed_before > 0 {
                    local.nontrivial(&(rec.journal.len(), k, format!("{:?}", c.op), c.unflushed_before));
                    local.class("points_inside_multiop_call_with_unflushed_predecessor");
                }
                if matches!(c.op, Op::MakeReadOnly) {
                    local.class("points_inside_make_read_only");
                    local.nontrivial(&(rec.journal.len(), k, "make_read_only"));
                }
                if c.first_after_reopen_with_entries {
                    local.class("points_inside_first_call_after_reopen_with_unflushed_entries");
                }
                // between header write and truncation
                if k > c.b && is_header_write(&rec.journal[k - 1]) && k < c.e {
                    local.class("points_between_header_write_and_next_op");
                }
            }
            recover_and_check(&files, &cands, &sub, &desc("crash"), 0, local, stats)?;
        }
        if cfg.torn && k < n {
            if let JOp::Write { data, s, off } = &rec.journal[k] {
                // the torn write belongs to the call containing op k
                let c = rec.calls.iter().find(|c| c.b <= k && k < c.e);
                let cands_t: Vec<&ListModel> = match c {
                    Some(c) => vec![&rec.models[c.before], &rec.models[c.after]],
                    None => cands.clone(),
                };
                for cut in torn_cuts(data.len(), &mut rng) {
                    let mut f2 = files.clone();
                    apply_torn(&mut f2, &rec.journal[k], cut);
                    local.class("torn_states");
                    let hdr = is_header_write(&rec.journal[k]);
                    if *s == OPLOG {
                        if hdr {
                            local.class("torn_header_slot_writes");
                        } else {
                            local.class("torn_entry_writes");
                        }
                        local.nontrivial(&(rec.journal.len(), k, cut));
                    } else if (*off as usize) < files[*s].len() {
                        local.class("torn_overwrites_of_older_content");
                        local.nontrivial(&(rec.journal.len(), k, cut));
                    }
                    let mut sub = *cfg;
                    sub.recurse_every = None;
                    sub.suffix_variant = k + cut;
                    if heavy {
                        sub.suffix = cfg.suffix && cut % 8 == 1;
                    }
                    recover_and_check(
                        &f2,
                        &cands_t,
                        &sub,
                        &desc(&format!("torn write ({cut} of {} bytes of {})", data.len(), rec.journal[k].brief())),
                        0,
                        local,
                        stats,
                    )?;
                }
            }
        }
    }
    Ok(())
}
