//! Executing calls into /repo: block_on, panic capture.

use std::cell::RefCell;
use std::future::Future;
use std::panic::{catch_unwind, AssertUnwindSafe};
use std::sync::Once;

thread_local! {
    static RT: tokio::runtime::Runtime = tokio::runtime::Builder::new_current_thread()
        .enable_all()
        .build()
        .expect("tokio runtime");
}

/// Drive a future to completion on this thread (a current-thread tokio runtime, so that
/// the stock disk backend works too; in-memory backends never touch the reactor).
pub fn block_on<F: Future>(f: F) -> F::Output {
    RT.with(|rt| rt.block_on(f))
}

thread_local! {
    static LAST_PANIC: RefCell<Option<String>> = const { RefCell::new(None) };
    static QUIET: RefCell<bool> = const { RefCell::new(false) };
}

static HOOK: Once = Once::new();

/// Install a panic hook that records message+location in a thread local and prints
/// nothing while a `catch` is active on this thread.
pub fn install_hook() {
    HOOK.call_once(|| {
        let default = std::panic::take_hook();
        std::panic::set_hook(Box::new(move |info| {
            let quiet = QUIET.with(|q| *q.borrow());
            let msg = if let Some(s) = info.payload().downcast_ref::<&str>() {
                s.to_string()
            } else if let Some(s) = info.payload().downcast_ref::<String>() {
                s.clone()
            } else {
                "<non-string panic>".to_string()
            };
            let loc = info
                .location()
                .map(|l| format!("{}:{}", l.file(), l.line()))
                .unwrap_or_else(|| "?".into());
            LAST_PANIC.with(|p| *p.borrow_mut() = Some(format!("{loc}: {msg}")));
            if !quiet {
                default(info);
            }
        }));
    });
}

/// A captured panic: "file:line: message".
#[derive(Debug, Clone)]
pub struct Panicked(pub String);

impl Panicked {
    /// Stable signature: file (without line) + message with digits squashed.
    pub fn signature(&self) -> String {
        let s = &self.0;
        // strip registry prefix
        let s = if let Some(i) = s.rfind("/src/") {
            // keep crate dir name + rest
            let pre = &s[..i];
            let crate_name = pre.rsplit('/').next().unwrap_or("");
            format!("{}{}", crate_name, &s[i..])
        } else {
            s.clone()
        };
        let mut out = String::new();
        let mut last_digit = false;
        for ch in s.chars() {
            if ch.is_ascii_digit() {
                if !last_digit {
                    out.push('N');
                }
                last_digit = true;
            } else {
                out.push(ch);
                last_digit = false;
            }
        }
        out
    }
}

/// Run `f`, converting a panic into `Err(Panicked)`.
pub fn catch<T>(f: impl FnOnce() -> T) -> Result<T, Panicked> {
    install_hook();
    let prev = QUIET.with(|q| std::mem::replace(&mut *q.borrow_mut(), true));
    LAST_PANIC.with(|p| *p.borrow_mut() = None);
    let r = catch_unwind(AssertUnwindSafe(f));
    QUIET.with(|q| *q.borrow_mut() = prev);
    match r {
        Ok(v) => Ok(v),
        Err(_) => Err(Panicked(
            LAST_PANIC
                .with(|p| p.borrow_mut().take())
                .unwrap_or_else(|| "<unknown panic>".into()),
        )),
    }
}

/// Run an async call to completion under `catch`.
pub fn run<F: Future>(f: F) -> Result<F::Output, Panicked> {
    catch(|| block_on(f))
}
