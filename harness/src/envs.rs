//! Stock storage backends as environments (C14): the crate's own in-memory backend
//! (shared so that it can be "reopened") and the disk backend in a scratch directory.

use crate::backend::{store_idx, Files};
use crate::exec::run;
use crate::hc::{CacheCfg, CallResult};
use crate::ops::Env;
use async_trait::async_trait;
use hypercore::{Hypercore, HypercoreBuilder, PartialKeypair, Storage, StorageTraits, Store};
use random_access_memory::RandomAccessMemory;
use random_access_storage::{RandomAccess, RandomAccessError};
use std::path::PathBuf;
use std::sync::{Arc, Mutex};

fn with_cache(b: HypercoreBuilder, cache: CacheCfg) -> HypercoreBuilder {
    match crate::hc::cache_builder(cache) {
        None => b,
        Some(o) => b.node_cache_options(o),
    }
}

// ------------------------------------------------------------------ stock memory, shared

#[derive(Debug, Clone)]
pub struct StockMem(pub Arc<[Mutex<RandomAccessMemory>; 4]>);

impl Default for StockMem {
    fn default() -> Self {
        Self::new()
    }
}

impl StockMem {
    /// Stock backend with its default page size (1 MiB, what `Storage::new_memory` uses).
    pub fn new() -> Self {
        Self::with_page_size(1024 * 1024)
    }
    /// Smaller pages make a case cheap (no 1 MiB allocation per touched file) and exercise the
    /// backend's page-crossing logic.
    pub fn with_page_size(n: usize) -> Self {
        StockMem(Arc::new([
            Mutex::new(RandomAccessMemory::new(n)),
            Mutex::new(RandomAccessMemory::new(n)),
            Mutex::new(RandomAccessMemory::new(n)),
            Mutex::new(RandomAccessMemory::new(n)),
        ]))
    }
    async fn storage(&self) -> Result<Storage, hypercore::HypercoreError> {
        self.storage_ow(false).await
    }
    async fn storage_ow(&self, overwrite: bool) -> Result<Storage, hypercore::HypercoreError> {
        let me = self.0.clone();
        Storage::open(
            move |store: Store| {
                let me = me.clone();
                Box::pin(async move { Ok(Box::new(SharedMem { all: me, s: store_idx(&store) }) as Box<dyn StorageTraits + Send>) })
            },
            overwrite,
        )
        .await
    }
}

#[derive(Debug)]
struct SharedMem {
    all: Arc<[Mutex<RandomAccessMemory>; 4]>,
    s: usize,
}

// The stock backend's futures complete immediately, so holding the std mutex across the
// (never suspending) await is fine; futures::executor drives them to completion at once.
#[async_trait]
impl RandomAccess for SharedMem {
    async fn write(&mut self, offset: u64, data: &[u8]) -> Result<(), RandomAccessError> {
        let mut g = self.all[self.s].lock().unwrap();
        futures::executor::block_on(g.write(offset, data))
    }
    async fn read(&mut self, offset: u64, length: u64) -> Result<Vec<u8>, RandomAccessError> {
        let mut g = self.all[self.s].lock().unwrap();
        futures::executor::block_on(g.read(offset, length))
    }
    async fn del(&mut self, offset: u64, length: u64) -> Result<(), RandomAccessError> {
        let mut g = self.all[self.s].lock().unwrap();
        futures::executor::block_on(g.del(offset, length))
    }
    async fn truncate(&mut self, length: u64) -> Result<(), RandomAccessError> {
        let mut g = self.all[self.s].lock().unwrap();
        futures::executor::block_on(g.truncate(length))
    }
    async fn len(&mut self) -> Result<u64, RandomAccessError> {
        let mut g = self.all[self.s].lock().unwrap();
        futures::executor::block_on(g.len())
    }
    async fn is_empty(&mut self) -> Result<bool, RandomAccessError> {
        let mut g = self.all[self.s].lock().unwrap();
        futures::executor::block_on(g.is_empty())
    }
    async fn sync_all(&mut self) -> Result<(), RandomAccessError> {
        Ok(())
    }
}

impl Env for StockMem {
    fn create_with(&self, kp: PartialKeypair, cache: CacheCfg) -> CallResult<Hypercore> {
        run(async {
            let storage = self.storage().await?;
            with_cache(HypercoreBuilder::new(storage).key_pair(kp), cache).build().await
        })
    }
    fn open_with(&self, cache: CacheCfg) -> CallResult<Hypercore> {
        run(async {
            let storage = self.storage().await?;
            with_cache(HypercoreBuilder::new(storage).open(true), cache).build().await
        })
    }
    fn recreate_with(&self, kp: PartialKeypair, cache: CacheCfg) -> CallResult<Hypercore> {
        run(async {
            let storage = self.storage_ow(true).await?;
            with_cache(HypercoreBuilder::new(storage).key_pair(kp), cache).build().await
        })
    }
    fn fresh_like(&self) -> Self {
        StockMem::with_page_size(4096)
    }
    fn files(&self) -> Files {
        let mut out: Files = Default::default();
        for s in 0..4 {
            let mut g = self.0[s].lock().unwrap();
            let len = futures::executor::block_on(g.len()).unwrap();
            out[s] = futures::executor::block_on(g.read(0, len)).unwrap();
        }
        out
    }
}

// ------------------------------------------------------------------ stock disk

#[derive(Debug, Clone)]
pub struct StockDisk {
    pub dir: PathBuf,
}

impl StockDisk {
    pub fn new(tag: &str) -> Self {
        StockDisk { dir: crate::props::c06::scratch_dir(tag) }
    }
    pub fn remove(&self) {
        let _ = std::fs::remove_dir_all(&self.dir);
    }
}

impl Env for StockDisk {
    fn create_with(&self, kp: PartialKeypair, cache: CacheCfg) -> CallResult<Hypercore> {
        run(async {
            let storage = Storage::new_disk(&self.dir, true).await?;
            with_cache(HypercoreBuilder::new(storage).key_pair(kp), cache).build().await
        })
    }
    fn open_with(&self, cache: CacheCfg) -> CallResult<Hypercore> {
        run(async {
            let storage = Storage::new_disk(&self.dir, false).await?;
            with_cache(HypercoreBuilder::new(storage).open(true), cache).build().await
        })
    }
    fn recreate_with(&self, kp: PartialKeypair, cache: CacheCfg) -> CallResult<Hypercore> {
        self.create_with(kp, cache)
    }
    fn fresh_like(&self) -> Self {
        StockDisk::new("c14f")
    }
    fn files(&self) -> Files {
        let mut out: Files = Default::default();
        for (s, name) in crate::backend::STORE_NAMES.iter().enumerate() {
            out[s] = std::fs::read(self.dir.join(name)).unwrap_or_default();
        }
        out
    }
}
