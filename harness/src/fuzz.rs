//! Entry points for the libFuzzer targets (/verif/fuzz): the fuzzer's bytes are decoded
//! (fuzzdec.rs, over arbitrary::Unstructured) into the SAME case types as the proptest stages,
//! and the same interpreter and oracle run inside the target.
//! (proptest's pass-through RNG was tried first: with rand 0.9's rejection sampling it spins
//! forever once it yields zeros, so the decoders are written by hand.)

use crate::runner::{Check, Failure, Local};
use serde::Serialize;
use serde_json::{json, Value};

#[derive(Clone, Copy, Debug, PartialEq, Eq)]
pub enum Target {
    Ops,
    Proof,
    Request,
    Storage,
}

impl Target {
    pub fn parse(s: &str) -> Option<Target> {
        match s {
            "ops" => Some(Target::Ops),
            "proof" => Some(Target::Proof),
            "request" => Some(Target::Request),
            "storage" => Some(Target::Storage),
            _ => None,
        }
    }
    pub fn property(&self) -> &'static str {
        match self {
            Target::Ops => "C01",
            Target::Proof => "C04",
            Target::Request => "C09",
            Target::Storage => "C06",
        }
    }
}

fn to_value<T: Serialize>(v: &T) -> Value {
    serde_json::to_value(v).unwrap_or(Value::Null)
}

/// Decode the bytes into a case of the target's domain and check it. Returns the case (as JSON)
/// and the verdict.
pub fn run_target(t: Target, data: &[u8]) -> (Value, Check) {
    let mut local = Local::default();
    match t {
        Target::Ops => {
            let ops = crate::fuzzdec::ops(data);
            let r = crate::props::c01::run_history(&ops, crate::ops::ObsPolicy::Windowed, false, &mut local);
            (to_value(&ops), r)
        }
        Target::Proof => {
            let atk = crate::fuzzdec::attack(data);
            let r = crate::props::c04::run_attack(&atk, &mut local);
            (to_value(&atk), r)
        }
        Target::Request => {
            let c = crate::fuzzdec::peercase(data);
            let r = crate::props::c09::run_peercase(&c, &mut local);
            (to_value(&c), r)
        }
        Target::Storage => {
            let d = crate::fuzzdec::storedesc(data);
            let r = crate::props::c06::run_desc(&d, &mut local);
            (to_value(&d), r)
        }
    }
}

/// Called by the fuzz targets: on a failure that is not a recorded known finding, write a
/// replay file and panic (so that libFuzzer saves the input as an artifact).
pub fn fuzz_one(t: Target, data: &[u8]) {
    crate::exec::install_hook();
    let (case, r) = run_target(t, data);
    if let Err(f) = r {
        if is_known(t.property(), &f) {
            return;
        }
        let path = write_replay(t, &case, &f);
        eprintln!("FUZZ-FAILURE property={} kind={} replay={}", t.property(), f.kind, path);
        eprintln!("  detail: {}", f.detail);
        std::process::abort();
    }
}

fn is_known(prop: &str, f: &Failure) -> bool {
    let Ok(txt) = std::fs::read_to_string(format!("{}/known_findings.json", crate::runner::verif_dir())) else { return false };
    let Ok(v) = serde_json::from_str::<Value>(&txt) else { return false };
    v.get("findings")
        .and_then(|a| a.as_array())
        .map(|a| {
            a.iter().any(|e| {
                e.get("status").and_then(|s| s.as_str()) == Some("known")
                    && e.get("kind").and_then(|s| s.as_str()) == Some(f.kind.as_str())
                    && e.get("properties").and_then(|p| p.as_array()).map(|p| p.iter().any(|x| x.as_str() == Some(prop))).unwrap_or(false)
            })
        })
        .unwrap_or(false)
}

fn write_replay(t: Target, case: &Value, f: &Failure) -> String {
    let _ = std::fs::create_dir_all(format!("{}/replays", crate::runner::verif_dir()));
    let body = json!({
        "property": t.property(),
        "stage": format!("libfuzzer:{t:?}"),
        "failure": {"kind": f.kind, "detail": f.detail},
        "case": case,
    });
    let txt = serde_json::to_string_pretty(&body).unwrap();
    let path = format!("{}/replays/{}-fuzz-{:016x}.json", crate::runner::verif_dir(), t.property(), crate::runner::hash_of(&txt));
    let _ = std::fs::write(&path, txt);
    path
}
