//! Shared run framework: tiers, seeds, parallel drivers (random via proptest, exhaustive via
//! work queue), shrinking, known findings, replay files, evidence, watchdog.

use proptest::strategy::{Strategy, ValueTree};
use proptest::test_runner::{Config, RngAlgorithm, TestCaseError, TestError, TestRng, TestRunner};
use serde::Serialize;
use serde_json::{json, Value};
use std::cell::RefCell;
use std::collections::{BTreeMap, HashSet};
use std::hash::{Hash, Hasher};
use std::sync::atomic::{AtomicBool, AtomicU64, Ordering};
use std::sync::Mutex;
use std::time::{Duration, Instant};

/// Root of the verification tree: /verif, or $HCV_VERIF_DIR for isolated scratch runs (mutant sweeps).
pub fn verif_dir() -> String {
    std::env::var("HCV_VERIF_DIR").unwrap_or_else(|_| "/verif".to_string())
}

#[derive(Clone, Copy, Debug, PartialEq, Eq)]
pub enum Tier {
    Quick,
    Thorough,
}

impl Tier {
    pub fn name(&self) -> &'static str {
        match self {
            Tier::Quick => "quick",
            Tier::Thorough => "thorough",
        }
    }
    /// pick by tier
    pub fn pick<T>(&self, quick: T, thorough: T) -> T {
        match self {
            Tier::Quick => quick,
            Tier::Thorough => thorough,
        }
    }
}

/// A property failure. `kind` is a stable signature used for known-finding matching.
#[derive(Clone, Debug, Serialize)]
pub struct Failure {
    pub kind: String,
    pub detail: String,
}

impl Failure {
    pub fn new(kind: impl Into<String>, detail: impl Into<String>) -> Self {
        Failure { kind: kind.into(), detail: detail.into() }
    }
}

pub type Check = Result<(), Failure>;

#[derive(Clone, Debug)]
pub struct Known {
    pub property: String,
    pub kind: String,
    pub status: String,
    pub what: String,
}

/// Per-thread accumulation (merged into the Ctx at the end of a stage).
#[derive(Default)]
pub struct Local {
    pub evals: u64,
    pub nontrivial: HashSet<u64>,
    pub classes: BTreeMap<String, u64>,
    pub samples: Vec<Value>,
    pub sample_budget: usize,
    /// true while the current case has been marked non-trivial
    cur_nontrivial: bool,
}

impl Local {
    pub fn class(&mut self, name: &str) {
        *self.classes.entry(name.to_string()).or_insert(0) += 1;
    }
    pub fn class_n(&mut self, name: &str, n: u64) {
        *self.classes.entry(name.to_string()).or_insert(0) += n;
    }
    /// Mark a (sub)case as non-trivial; `key` identifies it for distinctness.
    pub fn nontrivial<K: Hash>(&mut self, key: &K) {
        self.nontrivial.insert(hash_of(key));
        self.cur_nontrivial = true;
    }
    pub fn want_sample(&self) -> bool {
        self.samples.len() < self.sample_budget
    }
    pub fn sample(&mut self, v: Value) {
        if self.samples.len() < self.sample_budget {
            self.samples.push(v);
        }
    }
}

pub fn hash_of<K: Hash>(k: &K) -> u64 {
    #[allow(deprecated)]
    let mut h = std::hash::SipHasher::new_with_keys(0x1234, 0x5678);
    k.hash(&mut h);
    h.finish()
}

pub fn mix(a: u64, b: u64) -> u64 {
    let mut z = a ^ b.wrapping_mul(0x9E3779B97F4A7C15);
    z = (z ^ (z >> 30)).wrapping_mul(0xBF58476D1CE4E5B9);
    z = (z ^ (z >> 27)).wrapping_mul(0x94D049BB133111EB);
    z ^ (z >> 31)
}

pub struct Ctx {
    pub prop: String,
    pub level: String,
    pub tier: Tier,
    pub seed: u64,
    pub threads: usize,
    pub start: Instant,
    pub stop: AtomicBool,
    evals: AtomicU64,
    nontrivial: Mutex<HashSet<u64>>,
    classes: Mutex<BTreeMap<String, u64>>,
    samples: Mutex<Vec<Value>>,
    stages: Mutex<Vec<Value>>,
    failures: Mutex<Vec<(Failure, Value, String)>>,
    known: Vec<Known>,
    known_hits: Mutex<BTreeMap<String, u64>>,
    pub rule: Mutex<String>,
    pub assumptions: Mutex<Vec<String>>,
    pub extra: Mutex<BTreeMap<String, Value>>,
    slots: Vec<Mutex<Option<(Instant, String, String, usize, f64)>>>,
    done: AtomicBool,
    pub strict: bool,
}

fn load_known(prop: &str) -> Vec<Known> {
    let path = format!("{}/known_findings.json", verif_dir());
    let Ok(txt) = std::fs::read_to_string(&path) else { return vec![] };
    let Ok(v) = serde_json::from_str::<Value>(&txt) else {
        eprintln!("warning: cannot parse {path}");
        return vec![];
    };
    let mut out = vec![];
    if let Some(arr) = v.get("findings").and_then(|a| a.as_array()) {
        for f in arr {
            let g = |k: &str| f.get(k).and_then(|x| x.as_str()).unwrap_or("").to_string();
            let props: Vec<String> = match f.get("properties").and_then(|p| p.as_array()) {
                Some(a) => a.iter().filter_map(|x| x.as_str().map(|s| s.to_string())).collect(),
                None => vec![g("property")],
            };
            if props.iter().any(|p| p == prop) {
                out.push(Known { property: prop.to_string(), kind: g("kind"), status: g("status"), what: g("what") });
            }
        }
    }
    out
}

impl Ctx {
    pub fn new(prop: &str, level: &str, tier: Tier, seed: u64, strict: bool) -> Self {
        let threads = std::env::var("VERIF_THREADS")
            .ok()
            .and_then(|s| s.parse().ok())
            .unwrap_or_else(|| std::thread::available_parallelism().map(|n| n.get()).unwrap_or(8).min(16));
        Ctx {
            prop: prop.to_string(),
            level: level.to_string(),
            tier,
            seed,
            threads,
            start: Instant::now(),
            stop: AtomicBool::new(false),
            evals: AtomicU64::new(0),
            nontrivial: Mutex::new(HashSet::new()),
            classes: Mutex::new(BTreeMap::new()),
            samples: Mutex::new(Vec::new()),
            stages: Mutex::new(Vec::new()),
            failures: Mutex::new(Vec::new()),
            known: load_known(prop),
            known_hits: Mutex::new(BTreeMap::new()),
            rule: Mutex::new(String::new()),
            assumptions: Mutex::new(Vec::new()),
            extra: Mutex::new(BTreeMap::new()),
            slots: (0..64).map(|_| Mutex::new(None)).collect(),
            done: AtomicBool::new(false),
            strict,
        }
    }

    pub fn set_rule(&self, r: &str) {
        *self.rule.lock().unwrap() = r.to_string();
    }
    pub fn assume(&self, a: &str) {
        self.assumptions.lock().unwrap().push(a.to_string());
    }
    pub fn extra(&self, k: &str, v: Value) {
        self.extra.lock().unwrap().insert(k.to_string(), v);
    }
    pub fn stopped(&self) -> bool {
        self.stop.load(Ordering::Relaxed)
    }

    /// Is this failure a recorded known finding (status "known")? Counts the hit.
    pub fn is_known(&self, f: &Failure) -> bool {
        if self.strict {
            return false;
        }
        for k in &self.known {
            if k.status == "known" && k.kind == f.kind {
                *self.known_hits.lock().unwrap().entry(k.kind.clone()).or_insert(0) += 1;
                return true;
            }
        }
        false
    }

    pub fn merge(&self, l: Local) {
        self.evals.fetch_add(l.evals, Ordering::SeqCst);
        self.nontrivial.lock().unwrap().extend(l.nontrivial);
        let mut c = self.classes.lock().unwrap();
        for (k, v) in l.classes {
            *c.entry(k).or_insert(0) += v;
        }
        let mut s = self.samples.lock().unwrap();
        for v in l.samples {
            if s.len() < 12 {
                s.push(v);
            }
        }
    }

    pub fn new_local(&self) -> Local {
        Local { sample_budget: 1, ..Default::default() }
    }

    pub fn report_failure(&self, f: Failure, case: Value, stage: &str) {
        self.stop.store(true, Ordering::SeqCst);
        self.failures.lock().unwrap().push((f, case, stage.to_string()));
    }

    pub fn stage_done(&self, name: &str, info: Value) {
        let el = self.start.elapsed().as_secs_f64();
        eprintln!("[{} {}] stage {name} done at {el:.1}s {info}", self.prop, self.tier.name());
        self.stages.lock().unwrap().push(json!({"stage": name, "info": info, "t": (el*10.0).round()/10.0}));
    }

    // ---- watchdog ----
    pub fn slot_begin(&self, tid: usize, stage: &str, case_json: impl FnOnce() -> String) {
        let me = unsafe { libc::pthread_self() } as usize;
        *self.slots[tid % 64].lock().unwrap() = Some((Instant::now(), stage.to_string(), case_json(), me, thread_cpu_secs(me).unwrap_or(0.0)));
    }
    pub fn slot_end(&self, tid: usize) {
        *self.slots[tid % 64].lock().unwrap() = None;
    }

    fn watchdog(&self) {
        let limit = Duration::from_secs(
            std::env::var("VERIF_HANG_SECS").ok().and_then(|s| s.parse().ok()).unwrap_or(90),
        );
        while !self.done.load(Ordering::SeqCst) {
            std::thread::sleep(Duration::from_millis(500));
            for slot in &self.slots {
                let stuck = {
                    let g = slot.lock().unwrap();
                    match &*g {
                        Some((t, stage, case, th, cpu0)) if t.elapsed() > limit => {
                            // Wall-clock alone raises false alarms on an overloaded machine: the case
                            // counts as stuck only if its thread has really burnt CPU for half the limit
                            // (or if ten times the limit has passed, e.g. a deadlock that burns nothing).
                            let burnt = thread_cpu_secs(*th).map(|c| c - cpu0).unwrap_or(f64::MAX);
                            if burnt > limit.as_secs_f64() / 2.0 || t.elapsed() > limit * 10 {
                                Some((stage.clone(), case.clone()))
                            } else {
                                None
                            }
                        }
                        _ => None,
                    }
                };
                if let Some((stage, case)) = stuck {
                    self.handle_hang(&stage, &case);
                }
            }
        }
    }

    fn handle_hang(&self, stage: &str, case: &str) -> ! {
        let case_v: Value = serde_json::from_str(case).unwrap_or(Value::String(case.to_string()));
        let f = Failure::new("hang", format!("case did not finish within the watchdog limit in stage {stage}"));
        let path = self.write_replay(&f, &case_v, stage);
        eprintln!("[{}] watchdog: a case is stuck; confirming in a subprocess: {path}", self.prop);
        // confirm in an isolated subprocess with time and memory limits
        let exe = std::env::current_exe().unwrap();
        let status = std::process::Command::new("sh")
            .arg("-c")
            .arg(format!(
                "ulimit -v 8000000; ulimit -t 120; exec timeout 3600 {} {} --replay {}",
                exe.display(),
                self.prop,
                path
            ))
            .status();
        // killed by the CPU-time limit (SIGXCPU / SIGKILL) = it really burnt 120 s of CPU on one case
        use std::os::unix::process::ExitStatusExt;
        let cpu_killed = status.as_ref().ok().map(|s| matches!(s.signal(), Some(24) | Some(9)) || matches!(s.code(), Some(152) | Some(137))).unwrap_or(false);
        let code = if cpu_killed { Some(124) } else { status.ok().and_then(|s| s.code()).map(|c| if c == 124 { 125 } else { c }) };
        let mut hang_is_violation = matches!(self.prop.as_str(), "C06" | "C09" | "C10");
        if code == Some(124) && self.prop == "C14" {
            // C14 is a differential: a confirmed hang is a violation exactly when the reference
            // configuration (instrumented memory backend, no cache) completes the same history
            let st = std::process::Command::new("sh")
                .arg("-c")
                .arg(format!("ulimit -v 8000000; ulimit -t 120; HCV_C14_REFERENCE_ONLY=1 exec timeout 3600 {} C14 --replay {}", exe.display(), path))
                .status();
            if st.ok().and_then(|s| s.code()) == Some(0) {
                eprintln!("[C14] the reference configuration completes this history; another configuration never returns");
                hang_is_violation = true;
            }
        }
        match code {
            Some(124) if hang_is_violation => {
                if self.is_known(&f) {
                    println!("KNOWN-FINDING: property={} hang (see known_findings.json)", self.prop);
                    eprintln!("INCONCLUSIVE: known hang encountered; stopping");
                    std::process::exit(2);
                }
                println!("VIOLATION property={} replay={}", self.prop, path);
                self.write_evidence(1);
                std::process::exit(1);
            }
            Some(1) => {
                // the replay itself reported a violation (e.g. it panicked deterministically)
                println!("VIOLATION property={} replay={}", self.prop, path);
                self.write_evidence(1);
                std::process::exit(1);
            }
            _ => {
                eprintln!("INCONCLUSIVE: property={} watchdog fired (subprocess exit {:?}); replay={}", self.prop, code, path);
                std::process::exit(2);
            }
        }
    }

    pub fn write_replay(&self, f: &Failure, case: &Value, stage: &str) -> String {
        let dir = format!("{}/replays", verif_dir());
        let _ = std::fs::create_dir_all(&dir);
        let body = json!({
            "property": self.prop,
            "stage": stage,
            "tier": self.tier.name(),
            "seed": self.seed,
            "failure": {"kind": f.kind, "detail": f.detail},
            "case": case,
        });
        let txt = serde_json::to_string_pretty(&body).unwrap();
        let h = hash_of(&txt);
        let path = format!("{dir}/{}-{:016x}.json", self.prop, h);
        std::fs::write(&path, txt).expect("write replay");
        path
    }

    /// Run `body` with the watchdog active.
    pub fn with_watchdog<R>(&self, body: impl FnOnce() -> R + Send) -> R
    where
        R: Send,
    {
        std::thread::scope(|s| {
            s.spawn(|| self.watchdog());
            let r = body();
            self.done.store(true, Ordering::SeqCst);
            r
        })
    }

    pub fn write_evidence(&self, violations: i64) {
        let classes = self.classes.lock().unwrap().clone();
        let mut coverage = serde_json::Map::new();
        coverage.insert("evaluations".into(), json!(self.evals.load(Ordering::SeqCst)));
        coverage.insert("distinct_nontrivial".into(), json!(self.nontrivial.lock().unwrap().len()));
        coverage.insert("rule".into(), json!(self.rule.lock().unwrap().clone()));
        coverage.insert("samples".into(), Value::Array(self.samples.lock().unwrap().clone()));
        coverage.insert("classes".into(), json!(classes));
        coverage.insert("stages".into(), Value::Array(self.stages.lock().unwrap().clone()));
        coverage.insert("known_finding_hits".into(), json!(self.known_hits.lock().unwrap().clone()));
        for (k, v) in self.extra.lock().unwrap().iter() {
            coverage.insert(k.clone(), v.clone());
        }
        let ev = json!({
            "property_id": self.prop,
            "tier": self.tier.name(),
            "seed": self.seed,
            "level": self.level,
            "coverage": coverage,
            "assumptions": self.assumptions.lock().unwrap().clone(),
            "wall_s": (self.start.elapsed().as_secs_f64()*100.0).round()/100.0,
            "violations": violations,
            "threads": self.threads,
        });
        let dir = format!("{}/evidence", verif_dir());
        let _ = std::fs::create_dir_all(&dir);
        let path = format!("{dir}/{}.json", self.prop);
        let tmp = format!("{path}.tmp");
        std::fs::write(&tmp, serde_json::to_string_pretty(&ev).unwrap()).expect("write evidence");
        std::fs::rename(&tmp, &path).expect("rename evidence");
    }

    /// Final verdict: writes evidence, prints lines, returns exit code.
    pub fn finish(&self) -> i32 {
        self.done.store(true, Ordering::SeqCst);
        let failures = std::mem::take(&mut *self.failures.lock().unwrap());
        // known finding lines
        for (kind, n) in self.known_hits.lock().unwrap().iter() {
            let what = self.known.iter().find(|k| &k.kind == kind).map(|k| k.what.clone()).unwrap_or_default();
            println!("KNOWN-FINDING: property={} {} [kind={}; {} cases hit it]", self.prop, what, kind, n);
        }
        let mut code = 0;
        // de-duplicate by kind, report the smallest case per kind
        let mut by_kind: BTreeMap<String, (Failure, Value, String)> = BTreeMap::new();
        for (f, c, s) in failures {
            let sz = c.to_string().len();
            match by_kind.get(&f.kind) {
                Some((_, c0, _)) if c0.to_string().len() <= sz => {}
                _ => {
                    by_kind.insert(f.kind.clone(), (f, c, s));
                }
            }
        }
        let nviol = by_kind.len() as i64;
        for (_, (f, case, stage)) in by_kind {
            let path = self.write_replay(&f, &case, &stage);
            eprintln!("--- failure [{}] in stage {}: {}", f.kind, stage, f.detail);
            eprintln!("    case: {}", truncate(&case.to_string(), 1500));
            println!("VIOLATION property={} replay={}", self.prop, path);
            code = 1;
        }
        self.write_evidence(nviol);
        let ev = self.evals.load(Ordering::SeqCst);
        let nt = self.nontrivial.lock().unwrap().len();
        eprintln!(
            "[{} {}] seed={} evaluations={} distinct_nontrivial={} violations={} wall={:.1}s",
            self.prop,
            self.tier.name(),
            self.seed,
            ev,
            nt,
            nviol,
            self.start.elapsed().as_secs_f64()
        );
        code
    }
}

/// CPU time consumed so far by the given pthread (None if it cannot be read).
fn thread_cpu_secs(thread: usize) -> Option<f64> {
    unsafe {
        let mut cid: libc::clockid_t = 0;
        if libc::pthread_getcpuclockid(thread as libc::pthread_t, &mut cid) != 0 {
            return None;
        }
        let mut ts = libc::timespec { tv_sec: 0, tv_nsec: 0 };
        if libc::clock_gettime(cid, &mut ts) != 0 {
            return None;
        }
        Some(ts.tv_sec as f64 + ts.tv_nsec as f64 / 1e9)
    }
}

pub fn truncate(s: &str, n: usize) -> String {
    if s.len() <= n {
        s.to_string()
    } else {
        let mut end = n;
        while !s.is_char_boundary(end) {
            end -= 1;
        }
        format!("{}…(+{} bytes)", &s[..end], s.len() - end)
    }
}

fn rng_for(seed: u64, prop: &str, stage: &str, tid: usize) -> TestRng {
    let mut s = [0u8; 32];
    let a = mix(seed, hash_of(&(prop, stage)));
    let b = mix(a, tid as u64 + 1);
    let c = mix(b, 0xabcdef);
    let d = mix(c, 0x13579b);
    s[..8].copy_from_slice(&a.to_le_bytes());
    s[8..16].copy_from_slice(&b.to_le_bytes());
    s[16..24].copy_from_slice(&c.to_le_bytes());
    s[24..].copy_from_slice(&d.to_le_bytes());
    TestRng::from_seed(RngAlgorithm::ChaCha, &s)
}

/// A seeded deterministic RNG for non-proptest uses (e.g. picking torn-write cuts).
pub fn small_rng(seed: u64, salt: u64) -> impl FnMut() -> u64 {
    let mut state = mix(seed, salt);
    move || {
        state = mix(state, 0x2545F4914F6CDD1D);
        state
    }
}

/// Random stage: `total` cases drawn from `strategy` over all threads, shrinking on failure.
/// `test` must be a pure function of the case.
pub fn random_stage<T, S>(
    ctx: &Ctx,
    stage: &str,
    total: u64,
    strategy: impl Fn() -> S + Sync,
    test: impl Fn(&T, &mut Local) -> Check + Sync,
) where
    T: std::fmt::Debug + Serialize + Clone,
    S: Strategy<Value = T>,
{
    if ctx.stopped() || total == 0 {
        return;
    }
    let threads = ctx.threads.max(1);
    let per = total.div_ceil(threads as u64);
    let t0 = Instant::now();
    std::thread::scope(|scope| {
        for tid in 0..threads {
            let strategy = &strategy;
            let test = &test;
            scope.spawn(move || {
                let local = RefCell::new(ctx.new_local());
                let first_kind: RefCell<Option<String>> = RefCell::new(None);
                let first_failure: RefCell<Option<(Failure, Value)>> = RefCell::new(None);
                let config = Config {
                    cases: per as u32,
                    failure_persistence: None,
                    max_shrink_iters: 4000,
                    max_shrink_time: 150_000, // ms; a shorter replay is nicer, a violation reported sooner is worth more
                    max_local_rejects: 100000,
                    max_global_rejects: 100000,
                    verbose: 0,
                    ..Config::default()
                };
                let mut runner = TestRunner::new_with_rng(config, rng_for(ctx.seed, &ctx.prop, stage, tid));
                let strat = strategy();
                let res = runner.run(&strat, |case: T| {
                    let shrinking = first_kind.borrow().is_some();
                    if !shrinking && ctx.stopped() {
                        return Ok(());
                    }
                    ctx.slot_begin(tid, stage, || serde_json::to_string(&case).unwrap_or_default());
                    let r = if shrinking {
                        let mut scratch = Local::default();
                        test(&case, &mut scratch)
                    } else {
                        let mut l = local.borrow_mut();
                        l.evals += 1;
                        l.cur_nontrivial = false;
                        let r = test(&case, &mut l);
                        if l.cur_nontrivial && l.want_sample() {
                            let v = serde_json::to_value(&case).unwrap_or(Value::Null);
                            if v.to_string().len() < 4000 {
                                l.sample(v);
                            }
                        }
                        r
                    };
                    ctx.slot_end(tid);
                    match r {
                        Ok(()) => Ok(()),
                        Err(f) => {
                            if shrinking {
                                if first_kind.borrow().as_deref() == Some(f.kind.as_str()) {
                                    Err(TestCaseError::fail(f.kind))
                                } else {
                                    Ok(())
                                }
                            } else if ctx.is_known(&f) {
                                local.borrow_mut().class("excluded_known");
                                Ok(())
                            } else {
                                *first_kind.borrow_mut() = Some(f.kind.clone());
                                *first_failure.borrow_mut() = Some((f.clone(), serde_json::to_value(&case).unwrap_or(Value::Null)));
                                ctx.stop.store(true, Ordering::SeqCst);
                                Err(TestCaseError::fail(f.kind))
                            }
                        }
                    }
                });
                match res {
                    Ok(()) => {}
                    Err(TestError::Fail(_, minimal)) => {
                        // re-run the minimal case to get the exact failure
                        let mut scratch = Local::default();
                        ctx.slot_begin(tid, stage, || serde_json::to_string(&minimal).unwrap_or_default());
                        let rerun = test(&minimal, &mut scratch);
                        ctx.slot_end(tid);
                        match rerun {
                            Err(f) => ctx.report_failure(f, serde_json::to_value(&minimal).unwrap_or(Value::Null), stage),
                            Ok(()) => {
                                // shrinking ended on a case that passes when re-run: report the original failure
                                let (mut f, case) = first_failure.borrow_mut().take().unwrap_or_else(|| {
                                    (Failure::new(first_kind.borrow().clone().unwrap_or_default(), "unknown"), serde_json::to_value(&minimal).unwrap_or(Value::Null))
                                });
                                f.detail = format!("{} [note: the shrunk case passed when re-run - the failure may depend on something outside the case]", f.detail);
                                ctx.report_failure(f, case, stage);
                            }
                        }
                    }
                    Err(TestError::Abort(why)) => {
                        eprintln!("[{}] stage {stage}: proptest aborted: {why}", ctx.prop);
                    }
                }
                ctx.merge(local.into_inner());
            });
        }
    });
    ctx.stage_done(stage, json!({"kind": "random", "cases_requested": total, "secs": t0.elapsed().as_secs_f64()}));
}

/// Deterministic work-queue stage over items `0..n` (bounded-exhaustive enumerations).
/// `item` maps an index to a case; `test` checks it.
pub fn indexed_stage<T>(
    ctx: &Ctx,
    stage: &str,
    n: u64,
    item: impl Fn(u64) -> T + Sync,
    test: impl Fn(&T, &mut Local) -> Check + Sync,
) where
    T: Serialize + Clone,
{
    if ctx.stopped() || n == 0 {
        return;
    }
    let next = AtomicU64::new(0);
    let t0 = Instant::now();
    let chunk = (n / (ctx.threads as u64 * 64)).clamp(1, 256);
    std::thread::scope(|scope| {
        for tid in 0..ctx.threads {
            let next = &next;
            let item = &item;
            let test = &test;
            scope.spawn(move || {
                let mut local = ctx.new_local();
                'outer: loop {
                    let base = next.fetch_add(chunk, Ordering::SeqCst);
                    if base >= n {
                        break;
                    }
                    for i in base..(base + chunk).min(n) {
                        if ctx.stopped() {
                            break 'outer;
                        }
                        let case = item(i);
                        ctx.slot_begin(tid, stage, || serde_json::to_string(&case).unwrap_or_default());
                        local.evals += 1;
                        local.cur_nontrivial = false;
                        let r = test(&case, &mut local);
                        ctx.slot_end(tid);
                        if local.cur_nontrivial && local.want_sample() {
                            local.sample(serde_json::to_value(&case).unwrap_or(Value::Null));
                        }
                        if let Err(f) = r {
                            if ctx.is_known(&f) {
                                local.class("excluded_known");
                                continue;
                            }
                            ctx.report_failure(f, serde_json::to_value(&case).unwrap_or(Value::Null), stage);
                            break 'outer;
                        }
                    }
                }
                ctx.merge(local);
            });
        }
    });
    ctx.stage_done(stage, json!({"kind": "enumerated", "items": n, "secs": t0.elapsed().as_secs_f64()}));
}

/// Shrink a failing `Vec<T>` case greedily by deleting elements (used by enumerated stages
/// and replays where proptest is not driving).
pub fn shrink_vec<T: Clone>(case: &[T], kind: &str, test: impl Fn(&[T]) -> Check) -> Vec<T> {
    let mut cur: Vec<T> = case.to_vec();
    let mut changed = true;
    while changed {
        changed = false;
        let mut i = 0;
        while i < cur.len() {
            let mut cand = cur.clone();
            cand.remove(i);
            match test(&cand) {
                Err(f) if f.kind == kind => {
                    cur = cand;
                    changed = true;
                }
                _ => i += 1,
            }
        }
    }
    cur
}

/// Generate one value from a strategy with a seeded rng (for deterministic sampling
/// outside the proptest runner, e.g. the exhaustive stages' parameters).
pub fn sample_value<S: Strategy>(strategy: &S, seed: u64, salt: u64) -> S::Value {
    let mut s = [0u8; 32];
    s[..8].copy_from_slice(&mix(seed, salt).to_le_bytes());
    s[8..16].copy_from_slice(&mix(salt, seed).to_le_bytes());
    let rng = TestRng::from_seed(RngAlgorithm::ChaCha, &s);
    let mut runner = TestRunner::new_with_rng(Config::default(), rng);
    strategy.new_tree(&mut runner).unwrap().current()
}
