pub mod backend;
pub mod exec;
pub mod hc;
pub mod model;
pub mod ops;
pub mod props;
pub mod runner;
