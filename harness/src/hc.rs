//! Thin helpers around the public API of /repo: keys, building/opening cores, observations.

use crate::backend::Disk;
use crate::exec::{run, Panicked};
use hypercore::{
    CacheOptionsBuilder, Hypercore, HypercoreBuilder, HypercoreError, PartialKeypair, SigningKey,
    VerifyingKey,
};
use serde::{Deserialize, Serialize};

pub const TEST_PUBLIC_KEY_BYTES: [u8; 32] = [
    0x97, 0x60, 0x6c, 0xaa, 0xd2, 0xb0, 0x8c, 0x1d, 0x5f, 0xe1, 0x64, 0x2e, 0xee, 0xa5, 0x62, 0xcb,
    0x91, 0xd6, 0x55, 0xe2, 0x00, 0xc8, 0xd4, 0x3a, 0x32, 0x09, 0x1d, 0x06, 0x4a, 0x33, 0x1e, 0xe3,
];
pub const TEST_SECRET_KEY_BYTES: [u8; 32] = [
    0x27, 0xe6, 0x74, 0x25, 0xc1, 0xff, 0xd1, 0xd9, 0xee, 0x62, 0x5c, 0x96, 0x2b, 0x57, 0x13, 0xc3,
    0x51, 0x0b, 0x71, 0x14, 0x15, 0xf3, 0x31, 0xf6, 0xfa, 0x9e, 0xf2, 0xbf, 0x23, 0x5f, 0x2f, 0xfe,
];
/// A second, unrelated key (forgeries).
pub const OTHER_SECRET_KEY_BYTES: [u8; 32] = [
    0x11, 0x22, 0x33, 0x44, 0x55, 0x66, 0x77, 0x88, 0x99, 0xaa, 0xbb, 0xcc, 0xdd, 0xee, 0xff, 0x01,
    0x12, 0x23, 0x34, 0x45, 0x56, 0x67, 0x78, 0x89, 0x9a, 0xab, 0xbc, 0xcd, 0xde, 0xef, 0xf0, 0x02,
];

pub fn test_keypair() -> PartialKeypair {
    let sk = SigningKey::from_bytes(&TEST_SECRET_KEY_BYTES);
    let public = VerifyingKey::from_bytes(&TEST_PUBLIC_KEY_BYTES).unwrap();
    assert_eq!(public.to_bytes(), sk.verifying_key().to_bytes());
    PartialKeypair { public, secret: Some(sk) }
}

pub fn other_keypair() -> PartialKeypair {
    let sk = SigningKey::from_bytes(&OTHER_SECRET_KEY_BYTES);
    PartialKeypair { public: sk.verifying_key(), secret: Some(sk) }
}

pub fn public_only(kp: &PartialKeypair) -> PartialKeypair {
    PartialKeypair { public: kp.public, secret: None }
}

#[derive(Clone, Copy, Debug, PartialEq, Eq, Serialize, Deserialize)]
pub enum CacheCfg {
    Off,
    Default,
    Tiny,
    /// capacity 0: a legal configuration in which the cache keeps nothing
    Zero,
    /// room for exactly one node
    One,
    /// only a time-to-live configured (one hour: nothing expires during a case)
    TtlOnly,
    /// only a time-to-idle configured (one hour)
    TtiOnly,
}

pub fn cache_builder(cache: CacheCfg) -> Option<CacheOptionsBuilder> {
    let hour = std::time::Duration::from_secs(3600);
    match cache {
        CacheCfg::Off => None,
        CacheCfg::Default => Some(CacheOptionsBuilder::new()),
        // weight of one node is 92 in /repo: room for three nodes
        CacheCfg::Tiny => Some(CacheOptionsBuilder::new().max_capacity(3 * 92)),
        CacheCfg::Zero => Some(CacheOptionsBuilder::new().max_capacity(0)),
        CacheCfg::One => Some(CacheOptionsBuilder::new().max_capacity(92)),
        CacheCfg::TtlOnly => Some(CacheOptionsBuilder::new().time_to_live(hour)),
        CacheCfg::TtiOnly => Some(CacheOptionsBuilder::new().time_to_idle(hour)),
    }
}

fn with_cache(b: HypercoreBuilder, cache: CacheCfg) -> HypercoreBuilder {
    match cache_builder(cache) {
        None => b,
        Some(o) => b.node_cache_options(o),
    }
}

pub type CallResult<T> = Result<Result<T, HypercoreError>, Panicked>;

/// Create a fresh core with the given key pair on the disk.
pub fn create_with(disk: &Disk, kp: PartialKeypair, cache: CacheCfg) -> CallResult<Hypercore> {
    run(async {
        let storage = disk.storage_async().await?;
        with_cache(HypercoreBuilder::new(storage).key_pair(kp), cache)
            .build()
            .await
    })
}

/// Create a fresh core over whatever the disk holds (`Storage::open(.., overwrite = true)`).
pub fn create_overwrite(disk: &Disk, kp: PartialKeypair) -> CallResult<Hypercore> {
    create_overwrite_with(disk, kp, CacheCfg::Off)
}

pub fn create_overwrite_with(disk: &Disk, kp: PartialKeypair, cache: CacheCfg) -> CallResult<Hypercore> {
    run(async {
        let storage = disk.storage_overwrite_async().await?;
        with_cache(HypercoreBuilder::new(storage).key_pair(kp), cache).build().await
    })
}

pub fn create(disk: &Disk, kp: PartialKeypair) -> CallResult<Hypercore> {
    create_with(disk, kp, CacheCfg::Off)
}

/// Open existing storage (`open(true)`).
pub fn open_with(disk: &Disk, cache: CacheCfg) -> CallResult<Hypercore> {
    run(async {
        let storage = disk.storage_async().await?;
        with_cache(HypercoreBuilder::new(storage).open(true), cache)
            .build()
            .await
    })
}

pub fn open(disk: &Disk) -> CallResult<Hypercore> {
    open_with(disk, CacheCfg::Off)
}

pub fn err_class(e: &HypercoreError) -> String {
    match e {
        HypercoreError::BadArgument { .. } => "BadArgument".into(),
        HypercoreError::NotWritable => "NotWritable".into(),
        HypercoreError::InvalidSignature { .. } => "InvalidSignature".into(),
        HypercoreError::InvalidChecksum { .. } => "InvalidChecksum".into(),
        HypercoreError::EmptyStorage { .. } => "EmptyStorage".into(),
        HypercoreError::CorruptStorage { .. } => "CorruptStorage".into(),
        HypercoreError::InvalidOperation { .. } => "InvalidOperation".into(),
        HypercoreError::IO { .. } => "IO".into(),
    }
}

pub fn squash_digits(s: &str) -> String {
    let mut out = String::new();
    let mut last = false;
    for ch in s.chars() {
        if ch.is_ascii_digit() {
            if !last {
                out.push('N');
            }
            last = true;
        } else {
            out.push(ch);
            last = false;
        }
    }
    out
}

/// Everything a user can see of a core, for indices `0..upto` plus `probes`.
#[derive(Clone, Debug, PartialEq, Eq, Serialize, Deserialize)]
pub struct Obs {
    pub length: u64,
    pub byte_length: u64,
    pub contiguous: u64,
    pub fork: u64,
    pub writeable: bool,
    pub public: Vec<u8>,
    /// (index, has, get) ; get: Ok(Some)/Ok(None)/Err(class)
    pub blocks: Vec<(u64, bool, Result<Option<Vec<u8>>, String>)>,
}

pub const FAR_PROBES: [u64; 10] = [
    32767,
    32768,
    32769,
    65535,
    65536,
    65537,
    1 << 32,
    (1 << 40) - 1,
    1 << 40,
    (1 << 62) + 3,
];

/// Observe a core. `upto`: observe all indices `< upto`; far probes optional.
pub fn observe(core: &mut Hypercore, upto: u64, far: bool) -> Result<Obs, Panicked> {
    observe_with(core, upto, far, &[])
}

/// Like `observe`; `extra` indices are always included (when the log is long and therefore only
/// sampled, the caller passes the indices on which its candidate models differ).
pub fn observe_with(core: &mut Hypercore, upto: u64, far: bool, extra: &[u64]) -> Result<Obs, Panicked> {
    crate::exec::catch(|| {
        let info = core.info();
        let mut blocks = Vec::new();
        // for long logs: has()+get() on a fixed sample (both ends, every 37th index, page edges)
        let mut idx: Vec<u64> = if upto <= 400 {
            (0..upto).collect()
        } else {
            let mut v: Vec<u64> = (0..24).collect();
            v.extend((0..upto).step_by(37));
            v.extend(upto - 40..upto);
            v.extend(extra.iter().copied().filter(|i| *i < upto));
            v.sort();
            v.dedup();
            v
        };
        if far {
            for p in FAR_PROBES {
                if p >= upto {
                    idx.push(p);
                }
            }
        }
        for i in idx {
            let has = core.has(i);
            let get = match crate::exec::block_on(core.get(i)) {
                Ok(v) => Ok(v),
                Err(e) => Err(format!("{}: {}", err_class(&e), e)),
            };
            blocks.push((i, has, get));
        }
        Obs {
            length: info.length,
            byte_length: info.byte_length,
            contiguous: info.contiguous_length,
            fork: info.fork,
            writeable: info.writeable,
            public: core.key_pair().public.to_bytes().to_vec(),
            blocks,
        }
    })
}

impl Obs {
    /// First difference to another observation, as text.
    pub fn diff(&self, other: &Obs) -> Option<String> {
        if self.length != other.length {
            return Some(format!("length {} vs {}", self.length, other.length));
        }
        if self.byte_length != other.byte_length {
            return Some(format!("byte_length {} vs {}", self.byte_length, other.byte_length));
        }
        if self.contiguous != other.contiguous {
            return Some(format!("contiguous_length {} vs {}", self.contiguous, other.contiguous));
        }
        if self.fork != other.fork {
            return Some(format!("fork {} vs {}", self.fork, other.fork));
        }
        if self.writeable != other.writeable {
            return Some(format!("writeable {} vs {}", self.writeable, other.writeable));
        }
        if self.public != other.public {
            return Some("public key differs".into());
        }
        if self.blocks.len() != other.blocks.len() {
            return Some(format!("probe count {} vs {}", self.blocks.len(), other.blocks.len()));
        }
        for (a, b) in self.blocks.iter().zip(other.blocks.iter()) {
            if a.0 != b.0 {
                return Some(format!("probe index {} vs {}", a.0, b.0));
            }
            if a.1 != b.1 {
                return Some(format!("has({}) {} vs {}", a.0, a.1, b.1));
            }
            if a.2 != b.2 {
                return Some(format!("get({}) {} vs {}", a.0, brief_get(&a.2), brief_get(&b.2)));
            }
        }
        None
    }
}

pub fn brief_bytes(b: &[u8]) -> String {
    if b.len() <= 12 {
        format!("{:02x?}", b)
    } else {
        format!("{:02x?}..(len {})", &b[..8], b.len())
    }
}

pub fn brief_get(g: &Result<Option<Vec<u8>>, String>) -> String {
    match g {
        Ok(Some(b)) => format!("Some({})", brief_bytes(b)),
        Ok(None) => "None".into(),
        Err(e) => format!("Err({e})"),
    }
}
